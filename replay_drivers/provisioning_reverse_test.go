package provisioning

// Input-search driver for reverseActions (property C15: a failed import rolls back the
// executed prefix in reverse order).  Runs the REAL function on action lists of every
// length 0..64 (the reversal does not look at the elements, so the length is the whole
// input space up to the bound) and compares with the reversed list.  Consulted only after
// an obligation of this function failed, and as a bounded stand-in in the thorough tier;
// it decides nothing.

import (
	"context"
	"encoding/json"
	"fmt"
	"os"
	"strconv"
	"testing"
)

type vrAction struct{ id int }

func (a vrAction) String() string                 { return strconv.Itoa(a.id) }
func (a vrAction) Do(context.Context) error       { return nil }
func (a vrAction) Rollback(context.Context) error { return nil }
func (a vrAction) Describe() Change               { return Change{} }

func vrReverseCheck(n int) (bool, map[string]any) {
	in := make([]action, n)
	for i := range in {
		in[i] = vrAction{i}
	}
	reverseActions(in)
	for i := range in {
		if in[i].(vrAction).id != n-1-i {
			var got []int
			for _, a := range in {
				got = append(got, a.(vrAction).id)
			}
			return false, map[string]any{"clause": "reversed", "input": map[string]any{"n": n},
				"observed": fmt.Sprintf("reverseActions([0..%d)) = %v", n, got), "expected": "the list in reverse order"}
		}
	}
	return true, nil
}

func TestVerifReplay_ReverseActions(t *testing.T) {
	out := os.Getenv("VERIF_REPLAY_OUT")
	if out == "" {
		t.Skip("driver: run by gocv only")
	}
	report := func(rep map[string]any) {
		b, _ := json.MarshalIndent(rep, "", " ")
		os.WriteFile(out, b, 0o644)
		t.Fatalf("REAL CODE BREAKS THE CLAUSE %v on %v: %v (expected: %v)", rep["clause"], rep["input"], rep["observed"], rep["expected"])
	}
	if in := os.Getenv("VERIF_REPLAY_INPUT"); in != "" {
		var rec struct {
			N int `json:"n"`
		}
		if err := json.Unmarshal([]byte(in), &rec); err != nil {
			t.Fatal(err)
		}
		if ok, rep := vrReverseCheck(rec.N); !ok {
			report(rep)
		}
		return
	}
	cases := 0
	for n := 0; n <= 64; n++ {
		cases++
		if ok, rep := vrReverseCheck(n); !ok {
			report(rep)
		}
	}
	if stats := os.Getenv("VERIF_REPLAY_STATS"); stats != "" {
		os.WriteFile(stats, []byte(fmt.Sprintf("{\"cases\": %d}", cases)), 0o644)
	}
}
