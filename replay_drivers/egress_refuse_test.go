package egress

// Input-search driver for egress.Refuse / classifyV4 (property C18).  Runs the REAL
// classifier on a deterministic stream of addresses (every special family of the
// property statement, with random tails, plus random lengths) and compares with an
// independent floor written from the statement: loopback, "this network", RFC 1918,
// link-local / metadata, CGNAT, multicast and reserved, and every IPv6 form that
// embeds such an IPv4 address, plus IPv6 loopback/unspecified/link-local/site-local/
// unique-local/multicast.  Consulted only after an obligation of these functions
// failed; it decides nothing.

import (
	"encoding/json"
	"fmt"
	"math/rand"
	"net"
	"os"
	"strconv"
	"testing"
	"time"
)

func vrV4Bad(b0, b1 byte) bool {
	return b0 == 127 || b0 == 0 || b0 == 10 || (b0 == 172 && b1 >= 16 && b1 <= 31) || (b0 == 192 && b1 == 168) ||
		(b0 == 169 && b1 == 254) || (b0 == 100 && b1 >= 64 && b1 <= 127) || b0 >= 224
}

func vrZeros(ip []byte, lo, hi int) bool {
	for i := lo; i < hi; i++ {
		if ip[i] != 0 {
			return false
		}
	}
	return true
}

// vrFloor: must this address be refused according to the property statement?
func vrFloor(ip []byte) (bool, string) {
	switch len(ip) {
	case 4:
		return vrV4Bad(ip[0], ip[1]), "floor-v4"
	case 16:
		tail := vrV4Bad(ip[12], ip[13])
		switch {
		case vrZeros(ip, 0, 10) && ip[10] == 255 && ip[11] == 255 && tail:
			return true, "floor-mapped"
		case vrZeros(ip, 0, 12) && tail:
			return true, "floor-compat"
		case vrZeros(ip, 0, 8) && ip[8] == 255 && ip[9] == 255 && ip[10] == 0 && ip[11] == 0 && tail:
			return true, "floor-translated"
		case ip[0] == 0 && ip[1] == 100 && ip[2] == 255 && ip[3] == 155 && vrZeros(ip, 4, 12) && tail:
			return true, "floor-nat64"
		case ip[0] == 32 && ip[1] == 2 && vrV4Bad(ip[2], ip[3]):
			return true, "floor-6to4"
		case ip[0] == 32 && ip[1] == 1 && ip[2] == 0 && ip[3] == 0 && (vrV4Bad(ip[4], ip[5]) || vrV4Bad(255-ip[12], 255-ip[13])):
			return true, "floor-teredo"
		case (ip[0] == 254 && ip[1] >= 128) || ip[0]/2 == 126 || ip[0] == 255:
			return true, "floor-v6"
		}
		return false, ""
	}
	return true, "not-an-ip-refused"
}

func vrCheck(ip []byte) (bool, map[string]any) {
	must, clause := vrFloor(ip)
	refused, reason := Refuse(net.IP(ip))
	if must && !refused {
		return false, map[string]any{"clause": clause, "input": map[string]any{"ip_bytes": ip, "ip": net.IP(ip).String()},
			"observed": fmt.Sprintf("Refuse = (%v, %q)", refused, reason), "expected": "refused (the address is in the refused floor: " + clause + ")"}
	}
	if refused != (reason != "") {
		return false, map[string]any{"clause": "reason-iff-refused", "input": map[string]any{"ip_bytes": ip, "ip": net.IP(ip).String()},
			"observed": fmt.Sprintf("Refuse = (%v, %q)", refused, reason), "expected": "refused exactly when a reason is given"}
	}
	return true, nil
}

func TestVerifReplay_Refuse(t *testing.T) {
	out := os.Getenv("VERIF_REPLAY_OUT")
	if out == "" {
		t.Skip("driver: run by gocv only")
	}
	report := func(rep map[string]any) {
		b, _ := json.MarshalIndent(rep, "", " ")
		os.WriteFile(out, b, 0o644)
		t.Fatalf("REAL CODE BREAKS THE CLAUSE %v on %v: %v (expected: %v)", rep["clause"], rep["input"], rep["observed"], rep["expected"])
	}
	if in := os.Getenv("VERIF_REPLAY_INPUT"); in != "" {
		var rec struct {
			IP []byte `json:"ip_bytes"`
		}
		if err := json.Unmarshal([]byte(in), &rec); err != nil {
			t.Fatal(err)
		}
		if ok, rep := vrCheck(rec.IP); !ok {
			report(rep)
		}
		return
	}
	seed, _ := strconv.Atoi(os.Getenv("VERIF_REPLAY_SEED"))
	budget, _ := strconv.Atoi(os.Getenv("VERIF_REPLAY_BUDGET_S"))
	if budget <= 0 {
		budget = 10
	}
	rng := rand.New(rand.NewSource(int64(seed)))
	deadline := time.Now().Add(time.Duration(budget) * time.Second)
	heads := [][]byte{
		{}, {0, 0, 0, 0, 0, 0, 0, 0, 0, 0, 255, 255}, {0, 0, 0, 0, 0, 0, 0, 0, 0, 0, 0, 0}, {0, 0, 0, 0, 0, 0, 0, 0, 255, 255, 0, 0},
		{0, 100, 255, 155, 0, 0, 0, 0, 0, 0, 0, 0}, {32, 2}, {32, 1, 0, 0}, {254, 128}, {254, 192}, {252}, {253}, {255},
	}
	special := []byte{0, 1, 10, 100, 127, 169, 172, 192, 223, 224, 239, 240, 254, 255, 16, 31, 32, 15, 64, 63, 128, 168}
	n := 0
	for time.Now().Before(deadline) {
		for k := 0; k < 2000; k++ {
			n++
			var ip []byte
			switch rng.Intn(10) {
			case 0: // arbitrary length
				ip = make([]byte, rng.Intn(20))
				rng.Read(ip)
			case 1, 2: // IPv4
				ip = make([]byte, 4)
				rng.Read(ip)
				ip[0] = special[rng.Intn(len(special))]
				if rng.Intn(2) == 0 {
					ip[1] = special[rng.Intn(len(special))]
				}
			default: // 16 bytes with a special head and a special embedded v4
				ip = make([]byte, 16)
				rng.Read(ip)
				h := heads[rng.Intn(len(heads))]
				copy(ip, h)
				if len(h) >= 8 && rng.Intn(4) != 0 {
					for i := len(h); i < 12; i++ {
						ip[i] = 0
					}
				}
				for _, at := range []int{12, 4, 2} {
					if rng.Intn(2) == 0 && at >= len(h) {
						ip[at] = special[rng.Intn(len(special))]
						ip[at+1] = special[rng.Intn(len(special))]
					}
				}
				if rng.Intn(6) == 0 { // bit-inverted teredo client
					ip[12] = 255 - special[rng.Intn(len(special))]
					ip[13] = 255 - special[rng.Intn(len(special))]
				}
			}
			if ok, rep := vrCheck(ip); !ok {
				rep["cases_tried"] = n
				report(rep)
			}
		}
	}
	t.Logf("driver: %d addresses, none breaks the floor", n)
	if sp := os.Getenv("VERIF_REPLAY_STATS"); sp != "" {
		os.WriteFile(sp, []byte(fmt.Sprintf(`{"cases": %d}`, n)), 0o644)
	}
}
