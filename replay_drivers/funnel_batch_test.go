package funnel

// Input-search driver for funnel.Batch index bookkeeping (property C08).  Runs the REAL
// Batch methods on deterministic random batches (random flags, filtered records, one
// operation with in-range arguments) and compares the resulting flags / returned indices
// with a reference that works on the list of active physical indices, written from the
// property statement: indices given to Filter/Retry/Ack/Nack refer to the records that
// are not filtered, the k-th of them is the k-th non-filtered record in order, nothing
// else changes; sub-batches are windows cut at the first record of another flag class.

import (
	"encoding/json"
	"errors"
	"fmt"
	"math/rand"
	"os"
	"strconv"
	"testing"
	"time"

	"github.com/conduitio/conduit-commons/opencdc"
)

type vrBatchCase struct {
	Flags []int  `json:"flags"` // initial flag of every record (3 = filtered)
	Op    string `json:"op"`    // filter | retry | ack | nack | indices | active | subByFlag
	I     int    `json:"i"`
	J     int    `json:"j"` // exclusive end for range ops (-1: single index), count of errors for nack
}

func vrMkBatch(flags []int) *Batch {
	recs := make([]opencdc.Record, len(flags))
	for k := range recs {
		recs[k] = opencdc.Record{Position: opencdc.Position(fmt.Sprintf("p%d", k))}
	}
	b := NewBatch(recs)
	for k, f := range flags {
		b.recordStatuses[k].Flag = RecordFlag(f)
		if RecordFlag(f) == RecordFlagFilter {
			b.filterCount++
		}
	}
	return b
}

func vrActive(flags []int) []int {
	var a []int
	for k, f := range flags {
		if f != 3 {
			a = append(a, k)
		}
	}
	return a
}

func vrBatchCheck(c vrBatchCase) (ok bool, rep map[string]any) {
	bad := func(clause, obs, exp string) (bool, map[string]any) {
		return false, map[string]any{"clause": clause, "input": c, "observed": obs, "expected": exp}
	}
	defer func() {
		if r := recover(); r != nil {
			ok, rep = bad("no panic for in-range arguments", fmt.Sprintf("panic: %v", r), "no panic")
		}
	}()
	b := vrMkBatch(c.Flags)
	act := vrActive(c.Flags)
	want := append([]int(nil), c.Flags...)
	end := c.I + 1
	if c.J >= 0 {
		end = c.J
	}
	flagsOf := func() []int {
		out := make([]int, len(b.recordStatuses))
		for k, s := range b.recordStatuses {
			out[k] = int(s.Flag)
		}
		return out
	}
	cmp := func(clause string) (bool, map[string]any) {
		got := flagsOf()
		if fmt.Sprint(got) != fmt.Sprint(want) {
			return bad(clause, fmt.Sprintf("flags %v", got), fmt.Sprintf("flags %v", want))
		}
		nf := 0
		for _, f := range got {
			if f == 3 {
				nf++
			}
		}
		if b.filterCount != nf {
			return bad("filterCount is the number of filtered records", fmt.Sprintf("filterCount %d", b.filterCount), fmt.Sprintf("%d", nf))
		}
		return true, nil
	}
	rangeOp := func(f int) {
		for k := c.I; k < end; k++ {
			want[act[k]] = f
		}
	}
	switch c.Op {
	case "filter", "retry", "ack":
		f := map[string]int{"filter": 3, "retry": 2, "ack": 0}[c.Op]
		rangeOp(f)
		var js []int
		if c.J >= 0 {
			js = []int{c.J}
		}
		switch c.Op {
		case "filter":
			b.Filter(c.I, js...)
		case "retry":
			b.Retry(c.I, js...)
		case "ack":
			b.Ack(c.I, js...)
		}
		return cmp("the flag goes to exactly the active records [i, end) and to no other record")
	case "nack":
		errs := make([]error, c.J)
		for k := range errs {
			errs[k] = errors.New("e")
			want[act[c.I+k]] = 1
		}
		b.Nack(c.I, errs...)
		return cmp("Nack flags exactly the active records [i, i+len(errs)) (no split runs in this batch)")
	case "indices":
		got := b.activeRecordIndices()
		if b.filterCount == 0 {
			if got != nil {
				return bad("nil when nothing is filtered", fmt.Sprint(got), "nil")
			}
			return true, nil
		}
		if fmt.Sprint(got) != fmt.Sprint(act) {
			return bad("the k-th entry is the k-th non-filtered record", fmt.Sprint(got), fmt.Sprint(act))
		}
	case "active":
		got := b.ActiveRecords()
		if len(got) != len(act) {
			return bad("ActiveRecords returns the non-filtered records", fmt.Sprintf("%d records", len(got)), fmt.Sprintf("%d", len(act)))
		}
		for k, r := range got {
			if string(r.Position) != fmt.Sprintf("p%d", act[k]) {
				return bad("ActiveRecords returns the non-filtered records in order", fmt.Sprintf("entry %d is %s", k, r.Position), fmt.Sprintf("p%d", act[k]))
			}
		}
	case "setrecords":
		// replace the active records [i, i+j) by new ones: exactly those slots change
		recs := make([]opencdc.Record, c.J)
		for k := range recs {
			recs[k] = opencdc.Record{Position: opencdc.Position(fmt.Sprintf("new%d", k))}
		}
		b.SetRecords(c.I, recs)
		for k := range b.records {
			want := fmt.Sprintf("p%d", k)
			for t := 0; t < c.J; t++ {
				if act[c.I+t] == k {
					want = fmt.Sprintf("new%d", t)
				}
			}
			if string(b.records[k].Position) != want {
				return bad("SetRecords replaces exactly the active records [i, i+n) in order and nothing else", fmt.Sprintf("slot %d holds %s", k, b.records[k].Position), want)
			}
			if string(b.positions[k]) != fmt.Sprintf("p%d", k) {
				return bad("the original positions are never touched by SetRecords", fmt.Sprintf("position %d is %s", k, b.positions[k]), fmt.Sprintf("p%d", k))
			}
		}
		return cmp("SetRecords changes no flag")
	case "split":
		// split the i-th active record into j pieces: everything else keeps its place,
		// only the head keeps the original position, the pieces collapse back
		n := c.J
		recs := make([]opencdc.Record, n)
		for k := range recs {
			recs[k] = opencdc.Record{Position: opencdc.Position(fmt.Sprintf("piece%d", k))}
		}
		p := act[c.I]
		b.SplitRecord(c.I, recs)
		if len(b.records) != len(c.Flags)+n-1 || len(b.positions) != len(b.records) || len(b.recordStatuses) != len(b.records) || len(b.runs) != len(b.records) {
			return bad("SplitRecord keeps the parallel slices aligned", fmt.Sprintf("lens %d %d %d %d", len(b.records), len(b.positions), len(b.recordStatuses), len(b.runs)), fmt.Sprintf("all %d", len(c.Flags)+n-1))
		}
		for k := range b.records {
			var wantRec, wantPos string
			wantFlag := 0
			switch {
			case k < p:
				wantRec, wantPos, wantFlag = fmt.Sprintf("p%d", k), fmt.Sprintf("p%d", k), c.Flags[k]
			case k < p+n:
				wantRec = fmt.Sprintf("piece%d", k-p)
				if k == p {
					wantPos, wantFlag = fmt.Sprintf("p%d", p), c.Flags[p]
				}
			default:
				wantRec, wantPos, wantFlag = fmt.Sprintf("p%d", k-n+1), fmt.Sprintf("p%d", k-n+1), c.Flags[k-n+1]
			}
			if string(b.records[k].Position) != wantRec || string(b.positions[k]) != wantPos || int(b.recordStatuses[k].Flag) != wantFlag {
				return bad("SplitRecord puts the pieces where the record was, shifts the rest, keeps every other record/position/status, tail pieces have no position",
					fmt.Sprintf("slot %d: record %s position %q flag %d", k, b.records[k].Position, b.positions[k], b.recordStatuses[k].Flag),
					fmt.Sprintf("record %s position %q flag %d", wantRec, wantPos, wantFlag))
			}
		}
		ob := b.originalBatch()
		if len(ob.positions) != len(c.Flags) {
			return bad("originalBatch collapses the pieces back to one entry per source record", fmt.Sprintf("%d entries", len(ob.positions)), fmt.Sprintf("%d", len(c.Flags)))
		}
		for k := range ob.positions {
			if string(ob.positions[k]) != fmt.Sprintf("p%d", k) || string(ob.records[k].Position) != fmt.Sprintf("p%d", k) || int(ob.recordStatuses[k].Flag) != c.Flags[k] {
				return bad("originalBatch yields the original records, positions and head statuses in order",
					fmt.Sprintf("entry %d: record %s position %s flag %d", k, ob.records[k].Position, ob.positions[k], ob.recordStatuses[k].Flag), fmt.Sprintf("p%d p%d %d", k, k, c.Flags[k]))
			}
		}
	case "subByFlag":
		w := &Worker{}
		s := w.subBatchByFlag(b, c.I)
		if c.I >= len(c.Flags) {
			if s != nil {
				return bad("nil at the end of the batch", "non-nil", "nil")
			}
			return true, nil
		}
		cls := func(f int) int {
			if f == 3 {
				return 0
			}
			return f
		}
		n := 0
		for c.I+n < len(c.Flags) && cls(c.Flags[c.I+n]) == cls(c.Flags[c.I]) {
			n++
		}
		if s == nil || len(s.records) != n {
			return bad("the sub-batch is the maximal run of one flag class starting at the index asked for", fmt.Sprintf("%v records", func() any {
				if s == nil {
					return nil
				}
				return len(s.records)
			}()), fmt.Sprintf("%d", n))
		}
		for k := 0; k < n; k++ {
			if string(s.positions[k]) != fmt.Sprintf("p%d", c.I+k) || int(s.recordStatuses[k].Flag) != c.Flags[c.I+k] {
				return bad("the sub-batch is a window of the parent, in order", fmt.Sprintf("entry %d: %s flag %d", k, s.positions[k], s.recordStatuses[k].Flag), fmt.Sprintf("p%d flag %d", c.I+k, c.Flags[c.I+k]))
			}
		}
		if cap(s.records) != n || cap(s.recordStatuses) != n || cap(s.positions) != n {
			return bad("the sub-batch's slices are clipped to its window (growing it must not write into the parent)", fmt.Sprintf("cap records %d statuses %d positions %d", cap(s.records), cap(s.recordStatuses), cap(s.positions)), fmt.Sprintf("%d", n))
		}
		nf := 0
		for k := 0; k < n; k++ {
			if c.Flags[c.I+k] == 3 {
				nf++
			}
		}
		if s.filterCount != nf {
			return bad("the sub-batch recounts its filtered records", fmt.Sprintf("filterCount %d", s.filterCount), fmt.Sprintf("%d", nf))
		}
	}
	return true, nil
}

func TestVerifReplay_Batch(t *testing.T) {
	out := os.Getenv("VERIF_REPLAY_OUT")
	if out == "" {
		t.Skip("driver: run by gocv only")
	}
	report := func(rep map[string]any) {
		b, _ := json.MarshalIndent(rep, "", " ")
		os.WriteFile(out, b, 0o644)
		t.Fatalf("REAL CODE BREAKS THE CLAUSE %v on %v: %v (expected %v)", rep["clause"], rep["input"], rep["observed"], rep["expected"])
	}
	if in := os.Getenv("VERIF_REPLAY_INPUT"); in != "" {
		var c vrBatchCase
		if err := json.Unmarshal([]byte(in), &c); err != nil {
			t.Fatal(err)
		}
		if ok, rep := vrBatchCheck(c); !ok {
			report(rep)
		}
		return
	}
	seed, _ := strconv.Atoi(os.Getenv("VERIF_REPLAY_SEED"))
	budget, _ := strconv.Atoi(os.Getenv("VERIF_REPLAY_BUDGET_S"))
	if budget <= 0 {
		budget = 10
	}
	rng := rand.New(rand.NewSource(int64(seed)))
	deadline := time.Now().Add(time.Duration(budget) * time.Second)
	ops := []string{"filter", "retry", "ack", "nack", "indices", "active", "subByFlag", "setrecords", "split"}
	n := 0
	for time.Now().Before(deadline) {
		for k := 0; k < 300; k++ {
			n++
			c := vrBatchCase{Op: ops[rng.Intn(len(ops))], J: -1}
			for i, m := 0, 1+rng.Intn(7); i < m; i++ {
				f := rng.Intn(4)
				if rng.Intn(3) == 0 {
					f = 3
				}
				c.Flags = append(c.Flags, f)
			}
			na := len(vrActive(c.Flags))
			switch c.Op {
			case "filter", "retry", "ack":
				if na == 0 {
					continue
				}
				c.I = rng.Intn(na)
				if rng.Intn(2) == 0 {
					c.J = c.I + 1 + rng.Intn(na-c.I)
				}
			case "nack":
				if na == 0 {
					continue
				}
				c.I = rng.Intn(na)
				c.J = 1 + rng.Intn(na-c.I)
			case "subByFlag":
				c.I = rng.Intn(len(c.Flags) + 1)
			case "setrecords":
				if na == 0 {
					continue
				}
				c.I = rng.Intn(na)
				c.J = 1 + rng.Intn(na-c.I)
			case "split":
				if na == 0 {
					continue
				}
				c.I = rng.Intn(na)
				c.J = 2 + rng.Intn(3)
			}
			if ok, rep := vrBatchCheck(c); !ok {
				rep["cases_tried"] = n
				report(rep)
			}
		}
	}
	t.Logf("driver: %d batches, none disagrees with the reference", n)
	if sp := os.Getenv("VERIF_REPLAY_STATS"); sp != "" {
		os.WriteFile(sp, []byte(fmt.Sprintf(`{"cases": %d}`, n)), 0o644)
	}
}
