package connector

// Input-search driver for connector.Service (properties C14, C15).  Runs the REAL service
// on deterministic random sequences of AddProcessor / RemoveProcessor / Update with an
// injected store failure at random steps and compares the in-memory connector after every
// call with a reference: a call that returns an error changes nothing; a successful Add
// appends, a successful Remove removes the first occurrence and keeps the order; Remove
// fails only for an id that is not listed (or a store error); the stored state (position)
// is never touched by these calls.

import (
	"context"
	"encoding/json"
	"errors"
	"fmt"
	"math/rand"
	"os"
	"strconv"
	"testing"
	"time"

	"github.com/conduitio/conduit-commons/database"
	"github.com/conduitio/conduit-commons/database/inmemory"
	"github.com/conduitio/conduit/pkg/foundation/log"
)

type vrFailDB struct {
	database.DB
	failAt int
	n      int
}

func (f *vrFailDB) Set(ctx context.Context, key string, value []byte) error {
	f.n++
	if f.failAt > 0 && f.n == f.failAt {
		return errors.New("injected store failure")
	}
	return f.DB.Set(ctx, key, value)
}

type vrSvcOp struct {
	Op   string `json:"op"` // addp remp update
	Arg  string `json:"arg"`
	Fail bool   `json:"fail"`
}

type vrSvcCase struct {
	Ops []vrSvcOp `json:"ops"`
}

func vrRemoveFirst(l []string, id string) ([]string, bool) {
	for k, x := range l {
		if x == id {
			return append(append([]string{}, l[:k]...), l[k+1:]...), true
		}
	}
	return l, false
}

func vrSvcCheck(c vrSvcCase) (ok bool, rep map[string]any) {
	bad := func(clause, obs, exp string) (bool, map[string]any) {
		return false, map[string]any{"clause": clause, "input": c, "observed": obs, "expected": exp}
	}
	defer func() {
		if r := recover(); r != nil {
			ok, rep = bad("no panic", fmt.Sprintf("panic: %v", r), "no panic")
		}
	}()
	ctx := context.Background()
	db := &vrFailDB{DB: &inmemory.DB{}}
	s := NewService(log.Nop(), db, NewPersister(log.Nop(), db, time.Hour, 1000))
	conn, err := s.Create(ctx, "c1", TypeSource, "builtin:generator", "pl", Config{Name: "c1"}, ProvisionTypeAPI)
	if err != nil {
		return bad("setup", err.Error(), "connector created")
	}
	state := SourceState{Position: []byte("pos-7")}
	conn.State = state
	var procs []string
	plugin, name := "builtin:generator", "c1"
	for k, op := range c.Ops {
		db.n, db.failAt = 0, 0
		if op.Fail {
			db.failAt = 1
		}
		wantP, wantPlugin, wantName := procs, plugin, name
		wantErr := op.Fail
		switch op.Op {
		case "addp":
			_, err = s.AddProcessor(ctx, "c1", op.Arg)
			wantP = append(append([]string{}, procs...), op.Arg)
		case "remp":
			_, err = s.RemoveProcessor(ctx, "c1", op.Arg)
			var found bool
			wantP, found = vrRemoveFirst(procs, op.Arg)
			wantErr = wantErr || !found
		case "update":
			_, err = s.Update(ctx, "c1", "builtin:"+op.Arg, Config{Name: op.Arg})
			wantPlugin, wantName = "builtin:"+op.Arg, op.Arg
		}
		if (err != nil) != wantErr {
			return bad("a call fails exactly when the store write fails or the id is not listed", fmt.Sprintf("step %d %v: err=%v", k, op, err), fmt.Sprintf("error expected: %v", wantErr))
		}
		if err != nil {
			wantP, wantPlugin, wantName = procs, plugin, name
		}
		if fmt.Sprint(conn.ProcessorIDs) != fmt.Sprint(wantP) || conn.Plugin != wantPlugin || conn.Config.Name != wantName {
			return bad("a failed call changes nothing; a successful one appends / removes the first occurrence in order / updates",
				fmt.Sprintf("step %d %v (err=%v): processors %v plugin %q name %q", k, op, err, conn.ProcessorIDs, conn.Plugin, conn.Config.Name),
				fmt.Sprintf("processors %v plugin %q name %q", wantP, wantPlugin, wantName))
		}
		if st, ok := conn.State.(SourceState); !ok || string(st.Position) != "pos-7" {
			return bad("the stored position is not touched", fmt.Sprintf("step %d %v: state %v", k, op, conn.State), "pos-7")
		}
		procs, plugin, name = wantP, wantPlugin, wantName
	}
	return true, nil
}

func TestVerifReplay_ConnectorService(t *testing.T) {
	out := os.Getenv("VERIF_REPLAY_OUT")
	if out == "" {
		t.Skip("driver: run by gocv only")
	}
	report := func(rep map[string]any) {
		b, _ := json.MarshalIndent(rep, "", " ")
		os.WriteFile(out, b, 0o644)
		t.Fatalf("REAL CODE BREAKS THE CLAUSE %v on %v: %v (expected %v)", rep["clause"], rep["input"], rep["observed"], rep["expected"])
	}
	if in := os.Getenv("VERIF_REPLAY_INPUT"); in != "" {
		var c vrSvcCase
		if err := json.Unmarshal([]byte(in), &c); err != nil {
			t.Fatal(err)
		}
		if ok, rep := vrSvcCheck(c); !ok {
			report(rep)
		}
		return
	}
	seed, _ := strconv.Atoi(os.Getenv("VERIF_REPLAY_SEED"))
	budget, _ := strconv.Atoi(os.Getenv("VERIF_REPLAY_BUDGET_S"))
	if budget <= 0 {
		budget = 10
	}
	rng := rand.New(rand.NewSource(int64(seed)))
	deadline := time.Now().Add(time.Duration(budget) * time.Second)
	ops := []string{"addp", "addp", "remp", "update"}
	ids := []string{"a", "b", "c", "d"}
	n := 0
	for time.Now().Before(deadline) {
		for k := 0; k < 50; k++ {
			n++
			var c vrSvcCase
			for i, m := 0, 1+rng.Intn(9); i < m; i++ {
				c.Ops = append(c.Ops, vrSvcOp{Op: ops[rng.Intn(len(ops))], Arg: ids[rng.Intn(len(ids))], Fail: rng.Intn(5) == 0})
			}
			if ok, rep := vrSvcCheck(c); !ok {
				rep["cases_tried"] = n
				report(rep)
			}
		}
	}
	t.Logf("driver: %d operation sequences, none disagrees with the reference", n)
	if sp := os.Getenv("VERIF_REPLAY_STATS"); sp != "" {
		os.WriteFile(sp, []byte(fmt.Sprintf(`{"cases": %d}`, n)), 0o644)
	}
}
