package pipeline

// Input-search driver for pipeline.Service (properties C14, C15).  Runs the REAL service
// on deterministic random sequences of Update / AddConnector / RemoveConnector /
// AddProcessor / RemoveProcessor with an injected store failure at a random step, and
// compares the in-memory pipeline after every call with a reference: a call that returns
// an error changes nothing (lists, name, name index); a successful Add appends, a
// successful Remove removes the first occurrence and keeps the order, a rename moves the
// name in the index; Remove fails only for an id that is not listed (or a store error).

import (
	"context"
	"encoding/json"
	"errors"
	"fmt"
	"math/rand"
	"os"
	"strconv"
	"testing"
	"time"

	"github.com/conduitio/conduit-commons/database"
	"github.com/conduitio/conduit-commons/database/inmemory"
	"github.com/conduitio/conduit/pkg/foundation/log"
)

type vrFailDB struct {
	database.DB
	failAt int // the n-th Set from now fails (0 = never)
	n      int
}

func (f *vrFailDB) Set(ctx context.Context, key string, value []byte) error {
	f.n++
	if f.failAt > 0 && f.n == f.failAt {
		return errors.New("injected store failure")
	}
	return f.DB.Set(ctx, key, value)
}

type vrSvcOp struct {
	Op   string `json:"op"` // addc remc addp remp rename
	Arg  string `json:"arg"`
	Fail bool   `json:"fail"` // the store write of this call fails
}

type vrSvcCase struct {
	Ops []vrSvcOp `json:"ops"`
}

func vrRemoveFirst(l []string, id string) ([]string, bool) {
	for k, x := range l {
		if x == id {
			return append(append([]string{}, l[:k]...), l[k+1:]...), true
		}
	}
	return l, false
}

func vrSvcCheck(c vrSvcCase) (ok bool, rep map[string]any) {
	bad := func(clause, obs, exp string) (bool, map[string]any) {
		return false, map[string]any{"clause": clause, "input": c, "observed": obs, "expected": exp}
	}
	defer func() {
		if r := recover(); r != nil {
			ok, rep = bad("no panic", fmt.Sprintf("panic: %v", r), "no panic")
		}
	}()
	ctx := context.Background()
	db := &vrFailDB{DB: &inmemory.DB{}}
	s := NewService(log.Nop(), db)
	pl, err := s.Create(ctx, "p1", Config{Name: "n0"}, ProvisionTypeAPI)
	if err != nil {
		return bad("setup", err.Error(), "pipeline created")
	}
	if _, err := s.Create(ctx, "p2", Config{Name: "taken"}, ProvisionTypeAPI); err != nil {
		return bad("setup", err.Error(), "pipeline created")
	}
	var conns, procs []string
	name := "n0"
	for k, op := range c.Ops {
		db.n, db.failAt = 0, 0
		if op.Fail {
			db.failAt = 1
		}
		wantC, wantP, wantName := conns, procs, name
		wantErr := op.Fail
		switch op.Op {
		case "addc":
			_, err = s.AddConnector(ctx, "p1", op.Arg)
			wantC = append(append([]string{}, conns...), op.Arg)
		case "addp":
			_, err = s.AddProcessor(ctx, "p1", op.Arg)
			wantP = append(append([]string{}, procs...), op.Arg)
		case "remc":
			_, err = s.RemoveConnector(ctx, "p1", op.Arg)
			var found bool
			wantC, found = vrRemoveFirst(conns, op.Arg)
			wantErr = wantErr || !found
		case "remp":
			_, err = s.RemoveProcessor(ctx, "p1", op.Arg)
			var found bool
			wantP, found = vrRemoveFirst(procs, op.Arg)
			wantErr = wantErr || !found
		case "rename":
			_, err = s.Update(ctx, "p1", Config{Name: op.Arg})
			wantName = op.Arg
			wantErr = wantErr || op.Arg == "taken" || op.Arg == ""
		}
		if (err != nil) != wantErr {
			return bad("a call fails exactly when the store write fails or the request is invalid", fmt.Sprintf("step %d %v: err=%v", k, op, err), fmt.Sprintf("error expected: %v", wantErr))
		}
		if err != nil {
			wantC, wantP, wantName = conns, procs, name
		}
		if fmt.Sprint(pl.ConnectorIDs) != fmt.Sprint(wantC) || fmt.Sprint(pl.ProcessorIDs) != fmt.Sprint(wantP) || pl.Config.Name != wantName {
			return bad("a failed call changes nothing; a successful one appends / removes the first occurrence in order / renames",
				fmt.Sprintf("step %d %v (err=%v): connectors %v processors %v name %q", k, op, err, pl.ConnectorIDs, pl.ProcessorIDs, pl.Config.Name),
				fmt.Sprintf("connectors %v processors %v name %q", wantC, wantP, wantName))
		}
		for _, n := range []string{"n0", "n1", "n2"} {
			if s.instanceNames[n] != (n == wantName) {
				return bad("the name index holds exactly the names in use", fmt.Sprintf("step %d %v (err=%v): index has %q = %v", k, op, err, n, s.instanceNames[n]), fmt.Sprintf("%v", n == wantName))
			}
		}
		if !s.instanceNames["taken"] {
			return bad("another pipeline's name stays reserved", "name 'taken' dropped from the index", "reserved")
		}
		conns, procs, name = wantC, wantP, wantName
	}
	return true, nil
}

func TestVerifReplay_PipelineService(t *testing.T) {
	out := os.Getenv("VERIF_REPLAY_OUT")
	if out == "" {
		t.Skip("driver: run by gocv only")
	}
	report := func(rep map[string]any) {
		b, _ := json.MarshalIndent(rep, "", " ")
		os.WriteFile(out, b, 0o644)
		t.Fatalf("REAL CODE BREAKS THE CLAUSE %v on %v: %v (expected %v)", rep["clause"], rep["input"], rep["observed"], rep["expected"])
	}
	if in := os.Getenv("VERIF_REPLAY_INPUT"); in != "" {
		var c vrSvcCase
		if err := json.Unmarshal([]byte(in), &c); err != nil {
			t.Fatal(err)
		}
		if ok, rep := vrSvcCheck(c); !ok {
			report(rep)
		}
		return
	}
	seed, _ := strconv.Atoi(os.Getenv("VERIF_REPLAY_SEED"))
	budget, _ := strconv.Atoi(os.Getenv("VERIF_REPLAY_BUDGET_S"))
	if budget <= 0 {
		budget = 10
	}
	rng := rand.New(rand.NewSource(int64(seed)))
	deadline := time.Now().Add(time.Duration(budget) * time.Second)
	ops := []string{"addc", "addc", "remc", "addp", "addp", "remp", "rename"}
	ids := []string{"a", "b", "c", "d"}
	names := []string{"n0", "n1", "n2", "taken", ""}
	n := 0
	for time.Now().Before(deadline) {
		for k := 0; k < 50; k++ {
			n++
			var c vrSvcCase
			for i, m := 0, 1+rng.Intn(9); i < m; i++ {
				op := vrSvcOp{Op: ops[rng.Intn(len(ops))], Fail: rng.Intn(5) == 0}
				if op.Op == "rename" {
					op.Arg = names[rng.Intn(len(names))]
				} else {
					op.Arg = ids[rng.Intn(len(ids))]
				}
				c.Ops = append(c.Ops, op)
			}
			if ok, rep := vrSvcCheck(c); !ok {
				rep["cases_tried"] = n
				report(rep)
			}
		}
	}
	t.Logf("driver: %d operation sequences, none disagrees with the reference", n)
	if sp := os.Getenv("VERIF_REPLAY_STATS"); sp != "" {
		os.WriteFile(sp, []byte(fmt.Sprintf(`{"cases": %d}`, n)), 0o644)
	}
}
