package funnel

// Input-search driver for funnel.dlqWindow (property C07).  Runs the REAL window on
// deterministic random sequences of Ack(count)/Nack(count) for random window sizes and
// thresholds and compares every Nack result with a reference written from the property
// statement: a nack is tolerated iff, counting it, the nacks among the most recent
// `size` outcomes do not exceed the threshold (size 0: no limit; threshold 0: none
// tolerated); once a nack was not tolerated nothing is tolerated any more.

import (
	"encoding/json"
	"fmt"
	"math/rand"
	"os"
	"strconv"
	"testing"
	"time"
)

type vrWinRef struct {
	size, threshold int
	last            []bool // most recent outcomes, true = nack
	frozen          bool
}

func (r *vrWinRef) record(nack bool) bool {
	if r.size == 0 {
		return true
	}
	if r.frozen {
		return false
	}
	r.last = append(r.last, nack)
	if len(r.last) > r.size {
		r.last = r.last[1:]
	}
	n := 0
	for _, x := range r.last {
		if x {
			n++
		}
	}
	if nack && n > r.threshold {
		r.frozen = true
		return false
	}
	return true
}

type vrWinOp struct {
	Nack  bool `json:"nack"`
	Count int  `json:"count"`
}

type vrWinCase struct {
	Size      int       `json:"size"`
	Threshold int       `json:"threshold"`
	Ops       []vrWinOp `json:"ops"`
}

func vrWinCheck(c vrWinCase) (bool, map[string]any) {
	w := newDLQWindow(c.Size, c.Threshold)
	ref := &vrWinRef{size: c.Size, threshold: c.Threshold}
	for k, op := range c.Ops {
		if !op.Nack {
			w.Ack(op.Count)
			for i := 0; i < op.Count; i++ {
				ref.record(false)
			}
			continue
		}
		got := w.Nack(op.Count)
		want := 0
		for i := 0; i < op.Count; i++ {
			if !ref.record(true) {
				break
			}
			want++
		}
		if got != want {
			return false, map[string]any{"clause": "a nack is tolerated iff the nacks among the last `size` outcomes, counting it, do not exceed the threshold",
				"input": c, "observed": fmt.Sprintf("op %d: Nack(%d) = %d", k, op.Count, got), "expected": fmt.Sprintf("%d", want)}
		}
	}
	return true, nil
}

func TestVerifReplay_DLQWindow(t *testing.T) {
	out := os.Getenv("VERIF_REPLAY_OUT")
	if out == "" {
		t.Skip("driver: run by gocv only")
	}
	report := func(rep map[string]any) {
		b, _ := json.MarshalIndent(rep, "", " ")
		os.WriteFile(out, b, 0o644)
		t.Fatalf("REAL CODE BREAKS THE CLAUSE on %v: %v (expected %v)", rep["input"], rep["observed"], rep["expected"])
	}
	if in := os.Getenv("VERIF_REPLAY_INPUT"); in != "" {
		var c vrWinCase
		if err := json.Unmarshal([]byte(in), &c); err != nil {
			t.Fatal(err)
		}
		if ok, rep := vrWinCheck(c); !ok {
			report(rep)
		}
		return
	}
	seed, _ := strconv.Atoi(os.Getenv("VERIF_REPLAY_SEED"))
	budget, _ := strconv.Atoi(os.Getenv("VERIF_REPLAY_BUDGET_S"))
	if budget <= 0 {
		budget = 10
	}
	rng := rand.New(rand.NewSource(int64(seed)))
	deadline := time.Now().Add(time.Duration(budget) * time.Second)
	n := 0
	for time.Now().Before(deadline) {
		for k := 0; k < 500; k++ {
			n++
			c := vrWinCase{Size: rng.Intn(6), Threshold: rng.Intn(5)}
			for i, m := 0, 1+rng.Intn(10); i < m; i++ {
				c.Ops = append(c.Ops, vrWinOp{Nack: rng.Intn(2) == 0, Count: rng.Intn(4)})
			}
			if ok, rep := vrWinCheck(c); !ok {
				rep["cases_tried"] = n
				report(rep)
			}
		}
	}
	t.Logf("driver: %d sequences, none disagrees with the reference window", n)
	if sp := os.Getenv("VERIF_REPLAY_STATS"); sp != "" {
		os.WriteFile(sp, []byte(fmt.Sprintf(`{"cases": %d}`, n)), 0o644)
	}
}
