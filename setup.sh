#!/bin/bash
# Build the verification engine offline from vendored sources.
set -euo pipefail
cd "$(dirname "$0")"
. ./env.sh
mkdir -p bin out evidence
(cd engine && go build -mod=vendor -o ../bin/gocv ./cmd/gocv)
echo "setup ok"
