module gocv

go 1.25.8

require (
	golang.org/x/mod v0.38.0
	golang.org/x/sync v0.22.0
	golang.org/x/tools v0.47.0
)
