package main

// SMT-LIB text helpers and the sort mapping from Go types.

import (
	"fmt"
	"go/types"
	"sort"
	"strings"
)

func sx(op string, args ...string) string {
	return "(" + op + " " + strings.Join(args, " ") + ")"
}

func and(args ...string) string {
	var a []string
	for _, x := range args {
		if x == "true" || x == "" {
			continue
		}
		if x == "false" {
			return "false"
		}
		a = append(a, x)
	}
	switch len(a) {
	case 0:
		return "true"
	case 1:
		return a[0]
	}
	return sx("and", a...)
}

func or(args ...string) string {
	var a []string
	for _, x := range args {
		if x == "false" || x == "" {
			continue
		}
		if x == "true" {
			return "true"
		}
		a = append(a, x)
	}
	switch len(a) {
	case 0:
		return "false"
	case 1:
		return a[0]
	}
	return sx("or", a...)
}

func not(x string) string {
	switch x {
	case "true":
		return "false"
	case "false":
		return "true"
	}
	if strings.HasPrefix(x, "(not ") && balanced(x[5:len(x)-1]) {
		return x[5 : len(x)-1]
	}
	return sx("not", x)
}

func balanced(s string) bool {
	d := 0
	for i := 0; i < len(s); i++ {
		switch s[i] {
		case '(':
			d++
		case ')':
			d--
			if d < 0 {
				return false
			}
		case ' ':
			if d == 0 {
				return false
			}
		}
	}
	return d == 0
}

func imp(a, b string) string {
	if a == "true" {
		return b
	}
	if b == "true" || a == "false" {
		return "true"
	}
	return sx("=>", a, b)
}

func eq(a, b string) string {
	if a == b {
		return "true"
	}
	return sx("=", a, b)
}

func ite(c, a, b string) string {
	if c == "true" {
		return a
	}
	if c == "false" {
		return b
	}
	if a == b {
		return a
	}
	return sx("ite", c, a, b)
}

func intLit(n int64) string {
	if n < 0 {
		return fmt.Sprintf("(- %d)", -n)
	}
	return fmt.Sprintf("%d", n)
}

func sel(a, i string) string      { return sx("select", a, i) }
func store(a, i, v string) string { return sx("store", a, i, v) }

func quoteID(s string) string {
	ok := true
	for _, c := range s {
		if !(c >= 'a' && c <= 'z' || c >= 'A' && c <= 'Z' || c >= '0' && c <= '9' || c == '_' || c == '.' || c == '$' || c == '@' || c == '!') {
			ok = false
			break
		}
	}
	if ok && s != "" && !(s[0] >= '0' && s[0] <= '9') {
		return s
	}
	s = strings.ReplaceAll(s, "|", "!")
	s = strings.ReplaceAll(s, "\\", "!")
	return "|" + s + "|"
}

// ---------------------------------------------------------------- sorts

const preludeCore = `
(declare-datatypes ((Slice 0)) (((mk-slice (sl-base Int) (sl-off Int) (sl-len Int) (sl-cap Int)))))
(define-fun nil-slice () Slice (mk-slice 0 0 0 0))
(define-fun wf-slice ((s Slice)) Bool (and (>= (sl-base s) 0) (>= (sl-off s) 0) (>= (sl-len s) 0) (<= (sl-len s) (sl-cap s)) (=> (= (sl-base s) 0) (= (sl-cap s) 0))))
(define-fun go-div ((x Int) (y Int)) Int (ite (>= x 0) (ite (> y 0) (div x y) (- (div x (- y)))) (ite (> y 0) (- (div (- x) y)) (div (- x) (- y)))))
(define-fun go-mod ((x Int) (y Int)) Int (- x (* y (go-div x y))))
(declare-fun ix (Int Int) Int)
(assert (forall ((o Int) (k Int)) (! (= (ix o k) (+ o k)) :pattern ((ix o k)))))
(assert (forall ((o Int) (a Int) (k Int)) (! (= (ix (ix o a) k) (ix o (+ a k))) :pattern ((ix (ix o a) k)))))
(declare-fun sym-mod (Int Int) Int)
(declare-fun sym-div (Int Int) Int)
(assert (forall ((x Int) (y Int)) (! (and (=> (and (<= 0 x) (< x y)) (and (= (sym-mod x y) x) (= (sym-div x y) 0))) (=> (and (< 0 y) (<= y x) (< x (* 2 y))) (and (= (sym-mod x y) (- x y)) (= (sym-div x y) 1))) (=> (and (<= 0 x) (< 0 y)) (and (<= 0 (sym-mod x y)) (< (sym-mod x y) y) (<= 0 (sym-div x y)) (<= (sym-div x y) x)))) :pattern ((sym-mod x y)) :pattern ((sym-div x y)))))
(declare-fun dyntype (Int) Int)
(declare-fun strlen (Int) Int)
(assert (forall ((s Int)) (! (>= (strlen s) 0) :pattern ((strlen s)))))
(declare-fun str-concat (Int Int) Int)
(declare-fun implements (Int Int) Bool)
`

type sortTable struct {
	structDecls []string          // datatype declarations in dependency order
	structSorts map[string]string // go type string -> sort name
	structInfo  map[string]*types.Struct
	typeIDs     map[string]int
	funs        map[string]bool // declared uninterpreted functions (box/unbox)
	funDecls    []string
}

func newSortTable() *sortTable {
	return &sortTable{structSorts: map[string]string{}, structInfo: map[string]*types.Struct{}, typeIDs: map[string]int{}, funs: map[string]bool{}}
}

func typeKey(t types.Type) string {
	// full import paths: two packages may share a name (sync and internal/sync,
	// pkg/lifecycle and pkg/lifecycle-poc)
	return types.TypeString(t, func(p *types.Package) string {
		return strings.TrimPrefix(p.Path(), "github.com/conduitio/conduit/pkg/")
	})
}

func sanitize(s string) string {
	var b strings.Builder
	for _, c := range s {
		switch {
		case c >= 'a' && c <= 'z' || c >= 'A' && c <= 'Z' || c >= '0' && c <= '9' || c == '_' || c == '.':
			b.WriteRune(c)
		case c == '*':
			b.WriteString("P")
		case c == '[' || c == ']':
			b.WriteString("_")
		default:
			b.WriteString("_")
		}
	}
	return b.String()
}

func (st *sortTable) typeID(t types.Type) int {
	k := typeKey(t)
	if id, ok := st.typeIDs[k]; ok {
		return id
	}
	id := len(st.typeIDs) + 1
	st.typeIDs[k] = id
	return id
}

// sortOf maps a Go type to an SMT sort.
func (st *sortTable) sortOf(t types.Type) string {
	switch u := t.Underlying().(type) {
	case *types.Basic:
		switch {
		case u.Info()&types.IsBoolean != 0:
			return "Bool"
		default:
			return "Int"
		}
	case *types.Slice:
		return "Slice"
	case *types.Struct:
		return st.structSort(t, u)
	case *types.Array:
		return "(Array Int " + st.sortOf(u.Elem()) + ")"
	case *types.Tuple:
		return "Int"
	}
	return "Int"
}

func (st *sortTable) structSort(t types.Type, u *types.Struct) string {
	// keyed by the underlying struct type: named struct types with identical
	// underlying types convert into each other (ChangeType) and share a sort
	k := typeKey(u)
	t = u
	if s, ok := st.structSorts[k]; ok {
		return s
	}
	name := fmt.Sprintf("St%d_%s", len(st.structSorts), sanitize(k))
	if len(name) > 60 {
		name = name[:60]
	}
	st.structSorts[k] = name // set early (recursion is impossible by value, but be safe)
	st.structInfo[name] = u
	var fields []string
	for i := 0; i < u.NumFields(); i++ {
		f := u.Field(i)
		fields = append(fields, fmt.Sprintf("(%s %s)", quoteID(fmt.Sprintf("%s.%s", name, fieldName(u, i))), st.sortOf(f.Type())))
	}
	if len(fields) == 0 {
		fields = append(fields, fmt.Sprintf("(%s Int)", quoteID(name+".$unit")))
	}
	st.structDecls = append(st.structDecls, fmt.Sprintf("(declare-datatypes ((%s 0)) (((%s %s))))", name, quoteID("mk-"+name), strings.Join(fields, " ")))
	return name
}

func (st *sortTable) zero(t types.Type) string {
	switch u := t.Underlying().(type) {
	case *types.Basic:
		if u.Info()&types.IsBoolean != 0 {
			return "false"
		}
		return "0"
	case *types.Slice:
		return "nil-slice"
	case *types.Struct:
		name := st.structSort(t, u)
		if u.NumFields() == 0 {
			return sx(quoteID("mk-"+name), "0")
		}
		var fs []string
		for i := 0; i < u.NumFields(); i++ {
			fs = append(fs, st.zero(u.Field(i).Type()))
		}
		return sx(quoteID("mk-"+name), fs...)
	case *types.Array:
		return sx("(as const "+st.sortOf(t)+")", st.zero(u.Elem()))
	}
	return "0"
}

func (st *sortTable) fieldSel(t types.Type, i int) string {
	u := t.Underlying().(*types.Struct)
	name := st.structSort(t, u)
	return quoteID(fmt.Sprintf("%s.%s", name, fieldName(u, i)))
}

func fieldName(u *types.Struct, i int) string {
	n := u.Field(i).Name()
	if n == "_" {
		return fmt.Sprintf("_%d", i)
	}
	return n
}

func (st *sortTable) mkStruct(t types.Type, fields []string) string {
	u := t.Underlying().(*types.Struct)
	name := st.structSort(t, u)
	if u.NumFields() == 0 {
		return sx(quoteID("mk-"+name), "0")
	}
	return sx(quoteID("mk-"+name), fields...)
}

// box/unbox for interface payloads
func (st *sortTable) boxFun(t types.Type) (box, unbox string) {
	id := st.typeID(t)
	box = fmt.Sprintf("box%d", id)
	unbox = fmt.Sprintf("unbox%d", id)
	if !st.funs[box] {
		st.funs[box] = true
		s := st.sortOf(t)
		st.funDecls = append(st.funDecls,
			fmt.Sprintf("(declare-fun %s (%s) Int)", box, s),
			fmt.Sprintf("(declare-fun %s (Int) %s)", unbox, s),
			fmt.Sprintf("(assert (forall ((x %s)) (! (and (= (%s (%s x)) x) (= (dyntype (%s x)) %d) (> (%s x) 0)) :pattern ((%s x)))))", s, unbox, box, box, id, box, box),
			fmt.Sprintf("(assert (forall ((i Int)) (! (=> (and (distinct i 0) (= (dyntype i) %d)) (= (%s (%s i)) i)) :pattern ((%s i)))))", id, box, unbox, unbox),
		)
	}
	return
}

func isUnsigned(t types.Type) bool {
	if b, ok := t.Underlying().(*types.Basic); ok {
		return b.Info()&types.IsUnsigned != 0
	}
	return false
}

func isInteger(t types.Type) bool {
	if b, ok := t.Underlying().(*types.Basic); ok {
		return b.Info()&types.IsInteger != 0
	}
	return false
}

func intRange(t types.Type) (lo, hi string, ok bool) {
	b, isB := t.Underlying().(*types.Basic)
	if !isB {
		return "", "", false
	}
	switch b.Kind() {
	case types.Uint8:
		return "0", "255", true
	case types.Uint16:
		return "0", "65535", true
	case types.Uint32:
		return "0", "4294967295", true
	case types.Uint, types.Uint64, types.Uintptr:
		return "0", "18446744073709551615", true
	case types.Int8:
		return "(- 128)", "127", true
	case types.Int16:
		return "(- 32768)", "32767", true
	case types.Int32:
		return "(- 2147483648)", "2147483647", true
	case types.Int, types.Int64:
		return "(- 9223372036854775808)", "9223372036854775807", true
	}
	return "", "", false
}

func sortedKeys[V any](m map[string]V) []string {
	ks := make([]string, 0, len(m))
	for k := range m {
		ks = append(ks, k)
	}
	sort.Strings(ks)
	return ks
}
