package main

import (
	"fmt"
	"go/ast"
	"go/parser"
	"go/token"
	"os"
	"path/filepath"
	"sort"
	"strconv"
	"strings"
)

// scanErrorfSingleW: cerrors.Errorf is xerrors.Errorf, which understands at most ONE
// %w verb; with two, the result is not a wrapping error at all (its message contains
// "%!w(...)" and neither operand is reachable through Unwrap), so a coded or fatal
// error passed to it loses its classification (property C20).  Purely syntactic scan
// of every non-test Go file under <repo>/pkg and <repo>/cmd: each call
// cerrors.Errorf("<literal>", ...) must contain at most one %w.
// Returns the sites checked and the offending ones, named by file and enclosing
// function (stable under line shifts).
func scanErrorfSingleW(repo string) (checked int, bad []string) {
	fset := token.NewFileSet()
	var files []string
	for _, root := range []string{"pkg", "cmd"} {
		filepath.WalkDir(filepath.Join(repo, root), func(path string, d os.DirEntry, err error) error {
			if err != nil {
				return nil
			}
			if !d.IsDir() && strings.HasSuffix(path, ".go") && !strings.HasSuffix(path, "_test.go") {
				files = append(files, path)
			}
			return nil
		})
	}
	sort.Strings(files)
	for _, f := range files {
		af, err := parser.ParseFile(fset, f, nil, parser.SkipObjectResolution)
		if err != nil {
			continue
		}
		rel, _ := filepath.Rel(repo, f)
		for _, decl := range af.Decls {
			fd, ok := decl.(*ast.FuncDecl)
			if !ok || fd.Body == nil {
				continue
			}
			fname := fd.Name.Name
			if fd.Recv != nil && len(fd.Recv.List) > 0 {
				fname = exprString(fd.Recv.List[0].Type) + "." + fname
			}
			ast.Inspect(fd.Body, func(n ast.Node) bool {
				ce, ok := n.(*ast.CallExpr)
				if !ok || len(ce.Args) == 0 {
					return true
				}
				se, ok := ce.Fun.(*ast.SelectorExpr)
				if !ok || se.Sel.Name != "Errorf" {
					return true
				}
				if id, ok := se.X.(*ast.Ident); !ok || id.Name != "cerrors" {
					return true
				}
				lit, ok := ce.Args[0].(*ast.BasicLit)
				if !ok || lit.Kind != token.STRING {
					return true
				}
				s, err := strconv.Unquote(lit.Value)
				if err != nil {
					return true
				}
				checked++
				if n := strings.Count(strings.ReplaceAll(s, "%%", ""), "%w"); n > 1 {
					bad = append(bad, fmt.Sprintf("%s:%s: cerrors.Errorf(%q, ...) has %d %%w verbs (xerrors wraps at most one: the result wraps nothing)", rel, fname, s, n))
				}
				return true
			})
		}
	}
	return checked, bad
}

func exprString(e ast.Expr) string {
	switch x := e.(type) {
	case *ast.Ident:
		return x.Name
	case *ast.StarExpr:
		return "(*" + exprString(x.X) + ")"
	case *ast.IndexExpr:
		return exprString(x.X)
	case *ast.IndexListExpr:
		return exprString(x.X)
	}
	return "?"
}
