package main

// Spec expression language: a small Go-like expression grammar used in
// //verif: contract clauses.  Parsed into SExpr trees; translated to SMT-LIB
// by specsmt.go against a symbolic state.

import (
	"fmt"
	"strings"
	"unicode"
)

type SKind int

const (
	SIdent SKind = iota
	SNum
	SBool
	SNil
	SStr
	SUnary  // Op, X
	SBinary // Op, X, Y
	SField  // X . Name
	SIndex  // X [ Y ]
	SSlice  // X [ Lo : Hi ]  (Lo/Hi may be nil)
	SCall   // Name ( Args )
	SQuant  // Op = forall|exists, Name, Lo, Hi, Body
	SOld    // old(X)
)

type SExpr struct {
	Kind SKind
	Op   string
	Name string
	X, Y *SExpr
	Lo   *SExpr
	Hi   *SExpr
	Args []*SExpr
	Pos  int
}

func (e *SExpr) String() string {
	if e == nil {
		return ""
	}
	switch e.Kind {
	case SIdent, SNum, SBool, SNil:
		return e.Name
	case SStr:
		return fmt.Sprintf("%q", e.Name)
	case SUnary:
		return e.Op + e.X.String()
	case SBinary:
		return "(" + e.X.String() + " " + e.Op + " " + e.Y.String() + ")"
	case SField:
		return e.X.String() + "." + e.Name
	case SIndex:
		return e.X.String() + "[" + e.Y.String() + "]"
	case SSlice:
		return e.X.String() + "[" + e.Lo.String() + ":" + e.Hi.String() + "]"
	case SCall:
		var a []string
		for _, x := range e.Args {
			a = append(a, x.String())
		}
		return e.Name + "(" + strings.Join(a, ", ") + ")"
	case SQuant:
		return fmt.Sprintf("(%s %s in [%s,%s): %s)", e.Op, e.Name, e.Lo, e.Hi, e.X)
	case SOld:
		return "old(" + e.X.String() + ")"
	}
	return "?"
}

type tok struct {
	k   string // "id", "num", "str", "op", "eof"
	s   string
	pos int
}

func lexSpec(src string) ([]tok, error) {
	var out []tok
	i := 0
	for i < len(src) {
		c := rune(src[i])
		switch {
		case unicode.IsSpace(c):
			i++
		case unicode.IsLetter(c) || c == '_' || c == '$':
			j := i
			for j < len(src) && (unicode.IsLetter(rune(src[j])) || unicode.IsDigit(rune(src[j])) || src[j] == '_' || src[j] == '$') {
				j++
			}
			out = append(out, tok{"id", src[i:j], i})
			i = j
		case unicode.IsDigit(c):
			j := i
			for j < len(src) && (unicode.IsDigit(rune(src[j])) || src[j] == 'x' || (src[j] >= 'a' && src[j] <= 'f') || (src[j] >= 'A' && src[j] <= 'F')) {
				j++
			}
			out = append(out, tok{"num", src[i:j], i})
			i = j
		case c == '"':
			j := i + 1
			for j < len(src) && src[j] != '"' {
				if src[j] == '\\' {
					j++
				}
				j++
			}
			if j >= len(src) {
				return nil, fmt.Errorf("unterminated string at %d", i)
			}
			out = append(out, tok{"str", src[i+1 : j], i})
			i = j + 1
		default:
			ops := []string{"==>", "<==>", "==", "!=", "<=", ">=", "&&", "||", "<", ">", "+", "-", "*", "/", "%", "!", "(", ")", "[", "]", ".", ",", ":", "&"}
			matched := false
			// longest match first
			best := ""
			for _, op := range ops {
				if strings.HasPrefix(src[i:], op) && len(op) > len(best) {
					best = op
				}
			}
			if best != "" {
				out = append(out, tok{"op", best, i})
				i += len(best)
				matched = true
			}
			if !matched {
				return nil, fmt.Errorf("unexpected character %q at %d in %q", c, i, src)
			}
		}
	}
	out = append(out, tok{"eof", "", len(src)})
	return out, nil
}

type specParser struct {
	toks []tok
	p    int
	src  string
}

func ParseSpec(src string) (*SExpr, error) {
	toks, err := lexSpec(src)
	if err != nil {
		return nil, err
	}
	ps := &specParser{toks: toks, src: src}
	e, err := ps.parseExpr()
	if err != nil {
		return nil, err
	}
	if ps.peek().k != "eof" {
		return nil, fmt.Errorf("trailing input at %d (%q) in %q", ps.peek().pos, ps.peek().s, src)
	}
	return e, nil
}

func (ps *specParser) peek() tok { return ps.toks[ps.p] }
func (ps *specParser) next() tok { t := ps.toks[ps.p]; ps.p++; return t }
func (ps *specParser) isOp(s string) bool {
	t := ps.peek()
	return t.k == "op" && t.s == s
}
func (ps *specParser) expectOp(s string) error {
	if !ps.isOp(s) {
		return fmt.Errorf("expected %q at %d, found %q in %q", s, ps.peek().pos, ps.peek().s, ps.src)
	}
	ps.p++
	return nil
}

func (ps *specParser) parseExpr() (*SExpr, error) {
	// quantifiers extend as far right as possible
	if t := ps.peek(); t.k == "id" && (t.s == "forall" || t.s == "exists") {
		ps.next()
		name := ps.next()
		if name.k != "id" {
			return nil, fmt.Errorf("quantifier: expected variable at %d", name.pos)
		}
		if ps.isOp(":") {
			// unbounded: forall k :: body
			ps.next()
			if err := ps.expectOp(":"); err != nil {
				return nil, err
			}
			body, err := ps.parseExpr()
			if err != nil {
				return nil, err
			}
			return &SExpr{Kind: SQuant, Op: t.s, Name: name.s, X: body}, nil
		}
		if in := ps.next(); in.k != "id" || in.s != "in" {
			return nil, fmt.Errorf("quantifier: expected 'in' at %d", in.pos)
		}
		if err := ps.expectOp("["); err != nil {
			return nil, err
		}
		lo, err := ps.parseExpr()
		if err != nil {
			return nil, err
		}
		if err := ps.expectOp(","); err != nil {
			return nil, err
		}
		hi, err := ps.parseExpr()
		if err != nil {
			return nil, err
		}
		if err := ps.expectOp(")"); err != nil {
			return nil, err
		}
		if err := ps.expectOp(":"); err != nil {
			return nil, err
		}
		body, err := ps.parseExpr()
		if err != nil {
			return nil, err
		}
		return &SExpr{Kind: SQuant, Op: t.s, Name: name.s, Lo: lo, Hi: hi, X: body}, nil
	}
	return ps.parseImp()
}

func (ps *specParser) parseImp() (*SExpr, error) {
	l, err := ps.parseOr()
	if err != nil {
		return nil, err
	}
	if ps.isOp("==>") {
		ps.next()
		r, err := ps.parseExpr() // right assoc, may be a quantifier
		if err != nil {
			return nil, err
		}
		return &SExpr{Kind: SBinary, Op: "==>", X: l, Y: r}, nil
	}
	if ps.isOp("<==>") {
		ps.next()
		r, err := ps.parseOr()
		if err != nil {
			return nil, err
		}
		return &SExpr{Kind: SBinary, Op: "<==>", X: l, Y: r}, nil
	}
	return l, nil
}

func (ps *specParser) parseOr() (*SExpr, error) {
	l, err := ps.parseAnd()
	if err != nil {
		return nil, err
	}
	for ps.isOp("||") {
		ps.next()
		r, err := ps.parseAnd()
		if err != nil {
			return nil, err
		}
		l = &SExpr{Kind: SBinary, Op: "||", X: l, Y: r}
	}
	return l, nil
}

func (ps *specParser) parseAnd() (*SExpr, error) {
	l, err := ps.parseCmp()
	if err != nil {
		return nil, err
	}
	for ps.isOp("&&") {
		ps.next()
		r, err := ps.parseCmp()
		if err != nil {
			return nil, err
		}
		l = &SExpr{Kind: SBinary, Op: "&&", X: l, Y: r}
	}
	return l, nil
}

var cmpOps = map[string]bool{"==": true, "!=": true, "<": true, "<=": true, ">": true, ">=": true}

func (ps *specParser) parseCmp() (*SExpr, error) {
	l, err := ps.parseAdd()
	if err != nil {
		return nil, err
	}
	var res *SExpr
	for ps.peek().k == "op" && cmpOps[ps.peek().s] {
		op := ps.next().s
		r, err := ps.parseAdd()
		if err != nil {
			return nil, err
		}
		c := &SExpr{Kind: SBinary, Op: op, X: l, Y: r}
		if res == nil {
			res = c
		} else {
			res = &SExpr{Kind: SBinary, Op: "&&", X: res, Y: c}
		}
		l = r // chained comparison a <= b < c
	}
	if res != nil {
		return res, nil
	}
	return l, nil
}

func (ps *specParser) parseAdd() (*SExpr, error) {
	l, err := ps.parseMul()
	if err != nil {
		return nil, err
	}
	for ps.isOp("+") || ps.isOp("-") {
		op := ps.next().s
		r, err := ps.parseMul()
		if err != nil {
			return nil, err
		}
		l = &SExpr{Kind: SBinary, Op: op, X: l, Y: r}
	}
	return l, nil
}

func (ps *specParser) parseMul() (*SExpr, error) {
	l, err := ps.parseUnary()
	if err != nil {
		return nil, err
	}
	for ps.isOp("*") || ps.isOp("/") || ps.isOp("%") {
		op := ps.next().s
		r, err := ps.parseUnary()
		if err != nil {
			return nil, err
		}
		l = &SExpr{Kind: SBinary, Op: op, X: l, Y: r}
	}
	return l, nil
}

func (ps *specParser) parseUnary() (*SExpr, error) {
	if t := ps.peek(); t.k == "id" && (t.s == "forall" || t.s == "exists") {
		return ps.parseExpr()
	}
	if ps.isOp("!") || ps.isOp("-") {
		op := ps.next().s
		x, err := ps.parseUnary()
		if err != nil {
			return nil, err
		}
		return &SExpr{Kind: SUnary, Op: op, X: x}, nil
	}
	return ps.parsePostfix()
}

func (ps *specParser) parsePostfix() (*SExpr, error) {
	x, err := ps.parsePrimary()
	if err != nil {
		return nil, err
	}
	for {
		switch {
		case ps.isOp("."):
			ps.next()
			n := ps.next()
			if n.k != "id" {
				return nil, fmt.Errorf("expected field name at %d in %q", n.pos, ps.src)
			}
			x = &SExpr{Kind: SField, X: x, Name: n.s}
		case ps.isOp("["):
			ps.next()
			var lo, hi *SExpr
			if !ps.isOp(":") {
				lo, err = ps.parseExpr()
				if err != nil {
					return nil, err
				}
			}
			if ps.isOp(":") {
				ps.next()
				if !ps.isOp("]") {
					hi, err = ps.parseExpr()
					if err != nil {
						return nil, err
					}
				}
				if err := ps.expectOp("]"); err != nil {
					return nil, err
				}
				x = &SExpr{Kind: SSlice, X: x, Lo: lo, Hi: hi}
			} else {
				if err := ps.expectOp("]"); err != nil {
					return nil, err
				}
				x = &SExpr{Kind: SIndex, X: x, Y: lo}
			}
		default:
			return x, nil
		}
	}
}

func (ps *specParser) parsePrimary() (*SExpr, error) {
	t := ps.next()
	switch t.k {
	case "num":
		return &SExpr{Kind: SNum, Name: t.s}, nil
	case "str":
		return &SExpr{Kind: SStr, Name: t.s}, nil
	case "id":
		switch t.s {
		case "true", "false":
			return &SExpr{Kind: SBool, Name: t.s}, nil
		case "nil":
			return &SExpr{Kind: SNil, Name: "nil"}, nil
		}
		if ps.isOp("(") {
			ps.next()
			var args []*SExpr
			for !ps.isOp(")") {
				a, err := ps.parseExpr()
				if err != nil {
					return nil, err
				}
				args = append(args, a)
				if ps.isOp(",") {
					ps.next()
				} else if !ps.isOp(")") {
					return nil, fmt.Errorf("expected , or ) at %d in %q", ps.peek().pos, ps.src)
				}
			}
			ps.next()
			if t.s == "old" {
				if len(args) != 1 {
					return nil, fmt.Errorf("old() takes one argument")
				}
				return &SExpr{Kind: SOld, X: args[0]}, nil
			}
			return &SExpr{Kind: SCall, Name: t.s, Args: args}, nil
		}
		return &SExpr{Kind: SIdent, Name: t.s}, nil
	case "op":
		if t.s == "(" {
			e, err := ps.parseExpr()
			if err != nil {
				return nil, err
			}
			if err := ps.expectOp(")"); err != nil {
				return nil, err
			}
			return e, nil
		}
	}
	return nil, fmt.Errorf("unexpected token %q at %d in %q", t.s, t.pos, ps.src)
}
