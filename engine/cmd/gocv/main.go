package main

import (
	"fmt"
	"os"

	"golang.org/x/tools/go/packages"
	"golang.org/x/tools/go/ssa"
	"golang.org/x/tools/go/ssa/ssautil"
)

func main() {
	cfg := &packages.Config{Mode: packages.LoadSyntax, Dir: "/repo", BuildFlags: []string{"-tags=verif"}}
	pkgs, err := packages.Load(cfg, os.Args[1:]...)
	if err != nil {
		panic(err)
	}
	prog, spkgs := ssautil.Packages(pkgs, ssa.InstantiateGenerics)
	prog.Build()
	for _, p := range spkgs {
		fmt.Println(p.Pkg.Path(), len(p.Members))
	}
}
