package main

import (
	"path/filepath"
	"flag"
	"fmt"
	"os"
	"sort"
	"strings"

	"golang.org/x/tools/go/ssa"
)

func main() {
	for _, kv := range goEnv() {
		if i := strings.Index(kv, "="); i > 0 {
			k := kv[:i]
			if k == "PATH" || k == "GOFLAGS" || k == "GOPROXY" || k == "GOTOOLCHAIN" {
				os.Setenv(k, kv[i+1:])
			}
		}
	}
	os.Unsetenv("GOSUMDB")
	if len(os.Args) < 2 {
		fmt.Fprintln(os.Stderr, "usage: gocv <dump|verify|check|lemmas> ...")
		os.Exit(2)
	}
	switch os.Args[1] {
	case "dump":
		cmdDump(os.Args[2:])
	case "verify":
		cmdVerify(os.Args[2:])
	case "check":
		cmdCheck(os.Args[2:])
	case "calls":
		cmdCalls(os.Args[2:])
	case "replay":
		cmdReplay(os.Args[2:])
	case "list":
		cmdList(os.Args[2:])
	case "sweep":
		cmdSweep(os.Args[2:])
	default:
		fmt.Fprintln(os.Stderr, "unknown command", os.Args[1])
		os.Exit(2)
	}
}

func envOr(k, d string) string {
	if v := os.Getenv(k); v != "" {
		return v
	}
	return d
}

func cmdDump(args []string) {
	fs := flag.NewFlagSet("dump", flag.ExitOnError)
	pkgs := fs.String("pkgs", "", "comma separated package patterns")
	fs.Parse(args)
	e := NewEngine(envOr("VERIF_REPO", "/repo"), envOr("VERIF_DIR", "/verif"))
	if err := e.Load(strings.Split(*pkgs, ",")); err != nil {
		fmt.Fprintln(os.Stderr, "load:", err)
		os.Exit(2)
	}
	for _, key := range fs.Args() {
		found := false
		for fn := range e.allFuncs {
			for _, n := range funcNames(fn) {
				if n == key {
					fn.WriteTo(os.Stdout)
					found = true
					for _, a := range fn.AnonFuncs {
						a.WriteTo(os.Stdout)
					}
					break
				}
			}
		}
		if !found {
			fmt.Println("not found:", key)
		}
	}
}

func cmdVerify(args []string) {
	fs := flag.NewFlagSet("verify", flag.ExitOnError)
	pkgs := fs.String("pkgs", "", "comma separated package patterns")
	prelude := fs.String("prelude", "", "comma separated SMT prelude files")
	timeout := fs.Int("timeout", 10, "solver timeout (s)")
	out := fs.String("out", "/verif/out/dev", "output dir")
	verbose := fs.Bool("v", false, "verbose")
	audit := fs.Bool("audit-locals", false, "only list the source locals each contract names (no solving)")
	fs.Parse(args)
	e := NewEngine(envOr("VERIF_REPO", "/repo"), envOr("VERIF_DIR", "/verif"))
	if err := e.Load(strings.Split(*pkgs, ",")); err != nil {
		fmt.Fprintln(os.Stderr, "load:", err)
		os.Exit(2)
	}
	pre := ""
	{
		allPre := []string{"/verif/spec/common.smt2"}
		if ms, _ := filepath.Glob("/verif/spec/*.smt2"); ms != nil {
			sort.Strings(ms)
			for _, m := range ms {
				if strings.HasSuffix(m, ".lemmas.smt2") || m == "/verif/spec/common.smt2" {
					continue
				}
				allPre = append(allPre, m)
			}
		}
		_ = prelude
		for _, f := range allPre {
			if f == "" {
				continue
			}
			b, err := os.ReadFile(f)
			if err != nil {
				fmt.Fprintln(os.Stderr, err)
				os.Exit(2)
			}
			pl, err := BuildPrelude(string(b))
			if err != nil {
				fmt.Fprintln(os.Stderr, f, err)
				os.Exit(2)
			}
			pre += pl.VCText + "\n"
			for _, name := range pl.Autos { // development command: all auto lemmas (check proves them per run)
				pre += pl.AutoAx[name]
				pl.AutoAx[name] = ""
			}
		}
	}
	var gens []*Gen
	keys := fs.Args()
	if len(keys) == 0 {
		loaded := map[string]bool{}
		for _, p := range e.pkgs {
			loaded[p.PkgPath] = true
		}
		for k, c := range e.contracts {
			if !c.Trusted && loaded[c.Pkg] {
				keys = append(keys, k)
			}
		}
		sort.Strings(keys)
	}
	for _, key := range keys {
		var fn *ssa.Function
		var con *Contract
		if c, ok := e.contracts[key]; ok {
			con = c
		} else {
			// allow short keys
			loadedPk := map[string]bool{}
			for _, p := range e.pkgs {
				loadedPk[p.PkgPath] = true
			}
			for k, c := range e.contracts {
				if loadedPk[c.Pkg] && (strings.HasSuffix(k, "."+key) || strings.HasSuffix(k, key)) {
					con = c
				}
			}
		}
		var err error
		if con != nil {
			fn, err = e.FindFunc(con)
		} else {
			fn, err = e.findFuncByKey(key)
		}
		if err != nil {
			fmt.Println("ERROR", err)
			continue
		}
		g, err := e.VerifyFunc(fn, con)
		if err != nil {
			fmt.Println("ERROR", err)
			continue
		}
		gens = append(gens, g)
	}
	if *audit {
		// which source locals do the contracts refer to by name?  (a rename of one of
		// them breaks the contract: prefer let/result_of/arg_of/loaded/at_call)
		for _, g := range gens {
			if len(g.localsNamed) > 0 {
				fmt.Printf("%s: %s\n", g.fnName, strings.Join(sortedKeys(g.localsNamed), ", "))
			}
		}
		return
	}
	solveAll(gens, pre, *out, *timeout, 12)
	bad := 0
	for _, g := range gens {
		fmt.Printf("== %s: %d obligations\n", g.fnName, len(g.obls))
		for _, o := range g.obls {
			ok := o.Result.Status == "unsat"
			if o.Must == "sat" {
				ok = o.Result.Status != "unsat" && o.Result.Status != "error"
			}
			mark := "ok  "
			if !ok {
				mark = "FAIL"
				bad++
			}
			if !ok || *verbose {
				fmt.Printf("  %s %-60s %-8s %-6s %.2fs  %s:%d  %s\n", mark, o.Name, o.Result.Status, o.Result.Solver, o.Result.Time, shortFile(o.Pos.Filename), o.Pos.Line, o.Src)
			}
		}
		for _, a := range g.abstracted {
			if *verbose {
				fmt.Println("  abstracted:", a)
			}
		}
	}
	fmt.Printf("failed: %d\n", bad)
}

// cmdCalls lists the selector names of every call in a function (a help for
// writing call-site clauses).
func cmdCalls(args []string) {
	fs := flag.NewFlagSet("calls", flag.ExitOnError)
	pkgs := fs.String("pkgs", "", "comma separated package patterns")
	fs.Parse(args)
	e := NewEngine(envOr("VERIF_REPO", "/repo"), envOr("VERIF_DIR", "/verif"))
	if err := e.Load(strings.Split(*pkgs, ",")); err != nil {
		fmt.Fprintln(os.Stderr, "load:", err)
		os.Exit(2)
	}
	for _, key := range fs.Args() {
		for fn := range e.allFuncs {
			match := false
			for _, n := range funcNames(fn) {
				if n == key {
					match = true
				}
			}
			if !match {
				continue
			}
			var show func(f *ssa.Function, indent string)
			show = func(f *ssa.Function, indent string) {
				fmt.Printf("%s%s  freevars=%d params=%d\n", indent, f.Name(), len(f.FreeVars), len(f.Params))
				for _, fv := range f.FreeVars {
					fmt.Printf("%s  fv %s %s\n", indent, fv.Name(), fv.Type())
				}
				for _, b := range f.Blocks {
					for _, in := range b.Instrs {
						var cc *ssa.CallCommon
						kind := "call"
						switch x := in.(type) {
						case *ssa.Call:
							cc = &x.Call
						case *ssa.Defer:
							cc = &x.Call
							kind = "defer"
						case *ssa.Go:
							cc = &x.Call
							kind = "go"
						}
						if cc != nil {
							fmt.Printf("%s  %s:%d %s %v\n", indent, shortFile(e.fset.Position(in.Pos()).Filename), e.fset.Position(in.Pos()).Line, kind, callNames(cc))
						}
					}
				}
				for _, a := range f.AnonFuncs {
					show(a, indent+"    ")
				}
			}
			show(fn, "")
		}
	}
}


// cmdList prints every function contract of the given packages with the source file
// of the function it is attached to (used to keep props/*.json aligned with the
// properties' anchor files).
func cmdList(args []string) {
	fs := flag.NewFlagSet("list", flag.ExitOnError)
	pkgs := fs.String("pkgs", "", "comma-separated package patterns")
	fs.Parse(args)
	e := NewEngine(envOr("VERIF_REPO", "/repo"), envOr("VERIF_DIR", "/verif"))
	if err := e.Load(strings.Split(*pkgs, ",")); err != nil {
		fmt.Fprintln(os.Stderr, "load:", err)
		os.Exit(2)
	}
	loaded := map[string]bool{}
	for _, p := range e.pkgs {
		loaded[p.PkgPath] = true
	}
	for _, k := range sortedKeys(e.contracts) {
		c := e.contracts[k]
		if c.Trusted || !loaded[c.Pkg] {
			continue
		}
		fn, err := e.FindFunc(c)
		if err != nil {
			fmt.Printf("%s\t?\t%v\n", k, err)
			continue
		}
		pos := e.fset.Position(fn.Pos())
		flag := ""
		if c.Assumed != "" {
			flag = "\tassumed"
		}
		fmt.Printf("%s\t%s%s\n", k, shortFile(pos.Filename), flag)
	}
}


// cmdSweep: zero-annotation safety sweep (development aid): every function of the
// given packages that has NO contract is executed symbolically with arbitrary inputs
// and its safety obligations (bounds, division, nil map write, negative make, nil
// call, failed type assertion, reachable panic) are attempted.  Failures are
// candidates for triage only - without preconditions most are "needs a contract".
func cmdSweep(args []string) {
	fs := flag.NewFlagSet("sweep", flag.ExitOnError)
	pkgs := fs.String("pkgs", "", "comma-separated package patterns")
	timeout := fs.Int("timeout", 5, "solver timeout per obligation (s)")
	out := fs.String("out", "/verif/out/sweep", "output dir")
	kinds := fs.String("kinds", "bounds,div,mapwrite,makeslice,assert", "safety kinds to report")
	fs.Parse(args)
	e := NewEngine(envOr("VERIF_REPO", "/repo"), envOr("VERIF_DIR", "/verif"))
	if err := e.Load(strings.Split(*pkgs, ",")); err != nil {
		fmt.Fprintln(os.Stderr, "load:", err)
		os.Exit(2)
	}
	want := map[string]bool{}
	for _, k := range strings.Split(*kinds, ",") {
		want[k] = true
	}
	loaded := map[string]bool{}
	for _, p := range e.pkgs {
		loaded[p.PkgPath] = true
	}
	var fns []*ssa.Function
	for fn := range e.allFuncs {
		if fn.Blocks == nil || fn.Synthetic != "" || fn.Pkg == nil || !loaded[fn.Pkg.Pkg.Path()] {
			continue
		}
		if strings.HasSuffix(e.fset.Position(fn.Pos()).Filename, "_test.go") {
			continue
		}
		if e.contractFor(fn) != nil {
			continue
		}
		fns = append(fns, fn)
	}
	sort.Slice(fns, func(i, j int) bool { return fns[i].String() < fns[j].String() })
	pre := ""
	if ms, _ := filepath.Glob("/verif/spec/*.smt2"); ms != nil {
		sort.Strings(ms)
		for _, m := range ms {
			if strings.HasSuffix(m, ".lemmas.smt2") {
				continue
			}
			b, _ := os.ReadFile(m)
			if pl, err := BuildPrelude(string(b)); err == nil {
				pre += pl.VCText + "\n"
			}
		}
	}
	var gens []*Gen
	skipped := 0
	for _, fn := range fns {
		g, err := e.VerifyFunc(fn, nil)
		if err != nil {
			skipped++
			continue
		}
		var keep []*Obligation
		for _, o := range g.obls {
			if want[o.Kind] {
				keep = append(keep, o)
			}
		}
		g.obls = keep
		if len(keep) > 0 {
			gens = append(gens, g)
		}
	}
	solveAll(gens, pre, *out, *timeout, 14)
	n, bad := 0, 0
	for _, g := range gens {
		for _, o := range g.obls {
			n++
			if o.Result == nil || o.Result.Status != "unsat" {
				bad++
				st := "?"
				if o.Result != nil {
					st = o.Result.Status
				}
				fmt.Printf("%-8s %-70s %s  %s\n", st, o.Name, o.Pos, o.Src)
			}
		}
	}
	fmt.Printf("sweep: %d functions (%d outside the subset), %d safety obligations, %d not discharged\n", len(fns), skipped, n, bad)
}
