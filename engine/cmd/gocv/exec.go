package main

import (
	"fmt"
	"net"
	"sort"
	"go/ast"
	"go/constant"
	"go/token"
	"go/types"
	"strings"

	"golang.org/x/tools/go/ssa"
)

// VerifyFunc generates all obligations for fn under contract con.
func (e *Engine) VerifyFunc(fn *ssa.Function, con *Contract) (g *Gen, err error) {
	g = &Gen{
		eng: e, fn: fn, con: con, st: newSortTable(),
		vals: map[ssa.Value]*Val{}, comps: map[string]*CompInfo{},
		reach: map[*ssa.BasicBlock]string{}, out: map[*ssa.BasicBlock]*State{},
		edge: map[[2]int]string{}, env: map[string]*Val{}, strs: map[string]int{},
		ghostSorts: map[string]string{"$brk": "Int"}, callSelCount: map[string]int{},
		safety:    map[string]bool{"bounds": true, "div": true, "assert": true, "panic": true, "mapwrite": true, "makeslice": true, "nilcall": true},
		selectors: map[string]bool{},
		localRefs: map[string]string{},
		memLocals: map[string]bool{},
	}
	g.fnName = e.funcDisplayName(fn, con)
	defer func() {
		if r := recover(); r != nil {
			if ge, ok := r.(genError); ok {
				err = fmt.Errorf("%s: %s", g.fnName, string(ge))
				return
			}
			panic(r)
		}
	}()
	if con != nil && con.SafetySet {
		g.safety = con.Safety
	}
	if fn.Blocks == nil {
		return g, fmt.Errorf("%s: function has no body", g.fnName)
	}
	if err := g.findLoops(); err != nil {
		return g, fmt.Errorf("%s: %v", g.fnName, err)
	}
	g.collectSelectors()
	g.prescanLocals()
	g.prescanCalls()
	g.decls = append(g.decls, "(declare-fun brk0 () Int)")
	g.assert("(> brk0 0)")
	g.init = &State{heap: map[string]string{}, ghost: map[string]string{}}
	g.cur = g.init
	g.curGuard = "true"

	// parameters and free variables
	var names []string
	if con != nil {
		names = con.Params
	}
	bindName := contractBinding(fn, names)
	idx := 0
	bind := func(v ssa.Value, kind string) {
		pname := v.Name()
		if pname == "_" || pname == "" {
			pname = fmt.Sprintf("_%d", idx)
		}
		c := g.declare(fmt.Sprintf("%s.%s", kind, pname), g.st.sortOf(v.Type()))
		val := &Val{T: c, Ty: v.Type()}
		g.vals[v] = val
		g.assumeTypeInv(val, "brk0")
		if idx < len(bindName) && bindName[idx] != "" && bindName[idx] != "_" {
			g.env[bindName[idx]] = val
		}
		idx++
	}
	for _, fv := range fn.FreeVars {
		bind(fv, "fv")
	}
	for _, p := range fn.Params {
		bind(p, "p")
	}
	if con != nil && len(names) > idx {
		return g, fmt.Errorf("%s: contract names %d parameters, function has %d (free vars + params)", g.fnName, len(names), idx)
	}
	// receiver non-nil (listed assumption)
	if fn.Signature.Recv() != nil && len(fn.Params) > 0 {
		if _, ok := fn.Params[0].Type().Underlying().(*types.Pointer); ok {
			g.assert(sx(">", g.vals[fn.Params[0]].T, "0"))
			g.assumptions = append(g.assumptions, "receiver of "+g.fnName+" is non-nil")
		}
	}
	// preconditions
	if con != nil {
		for _, gd := range con.Ghosts {
			g.ghostSorts["$user:"+gd.Name] = gd.Sort
		}
		sc := g.specCtx(g.env, g.init, g.init)
		for _, cl := range con.Requires {
			t, err := sc.evalBool(cl.E)
			if err != nil {
				return g, fmt.Errorf("%s: requires %s: %v", g.fnName, cl.Src, err)
			}
			g.assert(t)
		}
		for _, cl := range con.Assumes {
			t, err := sc.evalBool(cl.E)
			if err != nil {
				return g, fmt.Errorf("%s: assume %s: %v", g.fnName, cl.Src, err)
			}
			g.assert(t)
			g.assumptions = append(g.assumptions, fmt.Sprintf("%s: assume %s because %q", g.fnName, cl.Src, cl.Reason))
		}
	}
	// cover: the precondition must be satisfiable
	cover := g.oblige("cover", "requires", "false", fn.Pos(), "requires is satisfiable")
	cover.Must = "sat"

	order := rpo(fn)
	for _, b := range order {
		if fn.Recover != nil && b == fn.Recover {
			continue
		}
		if err := g.execBlock(b); err != nil {
			return g, fmt.Errorf("%s: block %d: %v", g.fnName, b.Index, err)
		}
	}
	// every call selector of the contract must match at least one call
	if con != nil {
		for _, cs := range con.Calls {
			if cs.Never {
				continue // "never X" is satisfied by the absence of X
			}
			if g.callSelCount[cs.Sel] == 0 {
				return g, fmt.Errorf("%s: call selector %q matches no call (contract target missing)", g.fnName, cs.Sel)
			}
		}
		for _, sp := range con.Stores {
			if g.callSelCount["store:"+sp.Sel] == 0 {
				return g, fmt.Errorf("%s: store selector %q matches no store (contract target missing)", g.fnName, sp.Sel)
			}
		}
		for _, sp := range con.Sends {
			if g.callSelCount["send:"+sp.Sel] == 0 {
				return g, fmt.Errorf("%s: send selector %q matches no send (contract target missing)", g.fnName, sp.Sel)
			}
		}
		for i := range con.Loops {
			if i >= len(g.loops) {
				return g, fmt.Errorf("%s: contract names loop %d, function has %d loops (contract target missing)", g.fnName, i, len(g.loops))
			}
		}
	}
	return g, nil
}

type genError string

func (g *Gen) fail(format string, args ...any) {
	panic(genError(fmt.Sprintf(format, args...)))
}

// assumeTypeInv adds the invariants every Go value of the type satisfies.
func (g *Gen) assumeTypeInv(v *Val, brk string) {
	if v.T == "" {
		return
	}
	t := v.Ty
	switch u := t.Underlying().(type) {
	case *types.Basic:
		if u.Info()&types.IsInteger != 0 {
			if lo, hi, ok := intRange(t); ok {
				g.assume(and(sx("<=", lo, v.T), sx("<=", v.T, hi)))
			}
		}
	case *types.Slice:
		g.assume(and(sx("wf-slice", v.T), sx("<", sx("sl-base", v.T), brk)))
	case *types.Pointer, *types.Map, *types.Chan:
		g.assume(sx("<", v.T, brk))
	case *types.Struct:
		g.assumeStructInv(v.T, t, u, brk, 0)
	}
}

// assumeStructInv: type invariants of the fields of a struct VALUE (slices are
// well-formed, unsigned fields non-negative), two levels deep.
func (g *Gen) assumeStructInv(term string, t types.Type, u *types.Struct, brk string, depth int) {
	if depth > 2 {
		return
	}
	for i := 0; i < u.NumFields(); i++ {
		ft := u.Field(i).Type()
		ftm := sx(g.st.fieldSel(t, i), term)
		switch fu := ft.Underlying().(type) {
		case *types.Slice:
			g.assume(sx("wf-slice", ftm))
		case *types.Basic:
			if fu.Info()&types.IsUnsigned != 0 {
				g.assume(sx("<=", "0", ftm))
			}
		case *types.Struct:
			g.assumeStructInv(ftm, ft, fu, brk, depth+1)
		}
	}
}

func (g *Gen) execBlock(b *ssa.BasicBlock) error {
	g.curBlock = b
	// incoming forward edges
	var ins []inEdge
	var fwdPreds []*ssa.BasicBlock
	for _, p := range b.Preds {
		if isBackEdge(p, b) {
			continue
		}
		st, ok := g.out[p]
		if !ok {
			continue // unreachable predecessor (e.g. recover block)
		}
		// a pred may have two edges to b
		for si, s := range p.Succs {
			if s == b {
				c := g.edgeCond(p, si)
				ins = append(ins, inEdge{c, st})
				fwdPreds = append(fwdPreds, p)
			}
		}
	}
	var reach string
	if b.Index == 0 {
		reach = "true"
		g.cur = g.init.clone()
		if g.inlineEntry != nil {
			// inlined body: starts in the caller's state, under the caller's guard
			reach = g.entryGuard
			g.cur = g.inlineEntry
		}
	} else {
		if len(ins) == 0 {
			// unreachable
			g.reach[b] = "false"
			g.out[b] = &State{heap: map[string]string{}, ghost: map[string]string{}}
			g.cur = g.out[b]
			g.curGuard = "false"
			// still define values for later references
			for _, in := range b.Instrs {
				if v, ok := in.(ssa.Value); ok {
					g.vals[v] = g.havocVal(v.Type(), "dead")
				}
			}
			return nil
		}
		var cs []string
		for _, e := range ins {
			cs = append(cs, e.cond)
		}
		r := g.freshConst(fmt.Sprintf("R%d", b.Index), "Bool")
		g.assert(eq(r, or(cs...)))
		reach = r
		g.cur = g.mergeStates(b, ins)
	}
	g.reach[b] = reach
	g.curGuard = reach

	li := g.headerOf[b]
	if li != nil {
		if err := g.enterLoop(li, ins, fwdPreds); err != nil {
			return err
		}
	}

	for _, in := range b.Instrs {
		if phi, ok := in.(*ssa.Phi); ok {
			if li != nil {
				continue // handled by enterLoop
			}
			g.execPhi(phi, b)
			continue
		}
		if err := g.execInstr(in); err != nil {
			return err
		}
	}
	g.out[b] = g.cur
	// vacuity guard: the block must be reachable under everything assumed so far
	_, endsInPanic := b.Instrs[len(b.Instrs)-1].(*ssa.Panic)
	if reach != "true" && !endsInPanic {
		g.curGuard = reach
		if cv := g.oblige("cover", fmt.Sprintf("reach:b%d", b.Index), "false", g.blockPos(b), "block is reachable under the assumptions made up to its end"); cv != nil {
			cv.Must = "sat"
		}
	}
	// back edges leaving this block
	for si, s := range b.Succs {
		if isBackEdge(b, s) {
			if err := g.closeLoop(g.headerOf[s], b, si); err != nil {
				return err
			}
		}
	}
	return nil
}

// edgeCond: condition under which control flows along successor si of p.
func (g *Gen) edgeCond(p *ssa.BasicBlock, si int) string {
	key := [2]int{p.Index, si}
	if c, ok := g.edge[key]; ok {
		return c
	}
	r := g.reach[p]
	c := r
	if ifi, ok := p.Instrs[len(p.Instrs)-1].(*ssa.If); ok {
		cv := g.val(ifi.Cond).T
		if si == 0 {
			c = and(r, cv)
		} else {
			c = and(r, not(cv))
		}
	}
	n := g.freshConst(fmt.Sprintf("E%d_%d", p.Index, si), "Bool")
	g.assert(eq(n, c))
	g.edge[key] = n
	return n
}

func (g *Gen) execPhi(phi *ssa.Phi, b *ssa.BasicBlock) {
	// value selected by the edge taken
	type alt struct{ cond, val string }
	var alts []alt
	for i, p := range b.Preds {
		if _, ok := g.out[p]; !ok {
			continue
		}
		for si, s := range p.Succs {
			if s == b {
				alts = append(alts, alt{g.edgeCond(p, si), g.val(phi.Edges[i]).T})
			}
		}
	}
	if len(alts) == 0 {
		g.vals[phi] = g.havocVal(phi.Type(), "phi")
		return
	}
	t := alts[len(alts)-1].val
	for i := len(alts) - 2; i >= 0; i-- {
		t = ite(alts[i].cond, alts[i].val, t)
	}
	c := g.declare(g.valName(phi), g.st.sortOf(phi.Type()))
	g.assert(eq(c, t))
	g.vals[phi] = &Val{T: c, Ty: phi.Type()}
}

func (g *Gen) valName(v ssa.Value) string {
	if g.inlinePrefix != "" {
		return "v." + g.inlinePrefix + v.Name()
	}
	return "v." + v.Name()
}

func (g *Gen) define(v ssa.Value, term string) *Val {
	c := g.declare(g.valName(v), g.st.sortOf(v.Type()))
	g.assert(eq(c, term))
	val := &Val{T: c, Ty: v.Type()}
	g.vals[v] = val
	return val
}

func (g *Gen) havocVal(t types.Type, hint string) *Val {
	if tup, ok := t.(*types.Tuple); ok {
		v := &Val{Ty: t}
		for i := 0; i < tup.Len(); i++ {
			v.Tuple = append(v.Tuple, g.havocVal(tup.At(i).Type(), hint))
		}
		return v
	}
	c := g.freshConst("h."+hint, g.st.sortOf(t))
	v := &Val{T: c, Ty: t}
	g.assumeTypeInv(v, g.ghostTerm(g.cur, "$brk"))
	return v
}

// val returns the symbolic value of an SSA operand.
func (g *Gen) val(v ssa.Value) *Val {
	if x, ok := g.vals[v]; ok {
		return x
	}
	switch c := v.(type) {
	case *ssa.Const:
		return g.constVal(c)
	case *ssa.Global:
		return g.globalVal(c)
	case *ssa.Function:
		return &Val{T: g.funcRef(c), Ty: c.Type(), Fn: c}
	case *ssa.Builtin:
		return &Val{T: "0", Ty: c.Type()}
	}
	g.fail("value %s (%T) used before definition", v.Name(), v)
	return nil
}

func (g *Gen) funcRef(f *ssa.Function) string {
	k := "fn:" + f.String()
	id, ok := g.strs[k]
	if !ok {
		id = len(g.strs) + 1
		g.strs[k] = id
	}
	return intLit(int64(-1000000 - id))
}

func (g *Gen) globalVal(gl *ssa.Global) *Val {
	k := "global:" + gl.String()
	id, ok := g.strs[k]
	if !ok {
		id = len(g.strs) + 1
		g.strs[k] = id
	}
	ref := intLit(int64(-2000000 - id))
	elem := gl.Type().(*types.Pointer).Elem()
	v := &Val{T: ref, Ty: gl.Type()}
	if !isStruct(elem) {
		v.LV = g.locOfPtr(&Val{T: ref}, elem)
		if !isArray(elem) {
			v.LV.Comp = "global:" + gl.String()
		}
	}
	return v
}

func (g *Gen) strConst(s string) string {
	k := "str:" + s
	id, ok := g.strs[k]
	if !ok {
		id = len(g.strs) + 1
		g.strs[k] = id
		// string constants are distinct small positive integers above 3000000
		g.ctx = append(g.ctx, fmt.Sprintf("(assert (= (strlen %d) %d))", 3000000+id, len(s)))
		if ax := cidrAxiom(s, 3000000+id); ax != "" {
			g.ctx = append(g.ctx, ax)
		}
	}
	if s == "" {
		return "0"
	}
	return intLit(int64(3000000 + id))
}

func (g *Gen) constVal(c *ssa.Const) *Val {
	t := c.Type()
	v := &Val{Ty: t}
	if c.Value == nil {
		v.T = g.st.zero(t)
		return v
	}
	switch c.Value.Kind() {
	case constant.Bool:
		if constant.BoolVal(c.Value) {
			v.T = "true"
		} else {
			v.T = "false"
		}
	case constant.Int:
		s := c.Value.ExactString()
		if strings.HasPrefix(s, "-") {
			v.T = "(- " + s[1:] + ")"
		} else {
			v.T = s
		}
	case constant.String:
		v.T = g.strConst(constant.StringVal(c.Value))
	default:
		v.T = g.freshConst("const", g.st.sortOf(t))
	}
	return v
}

func (g *Gen) blockPos(b *ssa.BasicBlock) token.Pos {
	for _, x := range b.Instrs {
		if p := x.Pos(); p.IsValid() {
			return p
		}
	}
	return g.fn.Pos()
}

func (g *Gen) pos(in ssa.Instruction) token.Pos {
	if p := in.Pos(); p.IsValid() {
		return p
	}
	// fall back to a nearby instruction with a position
	b := in.Block()
	for _, x := range b.Instrs {
		if p := x.Pos(); p.IsValid() {
			return p
		}
	}
	return g.fn.Pos()
}

func (g *Gen) execInstr(in ssa.Instruction) error {
	s := g.cur
	switch x := in.(type) {
	case *ssa.DebugRef:
		g.execDebugRef(x)
	case *ssa.Alloc:
		elem := x.Type().(*types.Pointer).Elem()
		ref := g.alloc(s)
		v := &Val{T: ref, Ty: x.Type()}
		// a source variable that lives in memory (captured or address-taken): its
		// current value is whatever the cell holds
		if x.Comment != "" {
			for spec, obj := range g.localObjs {
				if obj.Pos() == x.Pos() && obj.Name() == x.Comment {
					g.localAddr[spec] = v
					g.memLocals[spec] = true
				}
			}
		}
		if pfx := localPrefix(x); pfx != "" {
			// a local whose address never leaves the function: no callee can write
			// it, so it lives in components of its own
			if g.inlinePrefix != "" {
				// private memory of one inlined call
				pfx = "local." + g.inlinePrefix + strings.TrimPrefix(pfx, "local.")
			}
			g.localRefs[ref] = pfx
		}
		if at, ok := elem.Underlying().(*types.Array); ok && isStruct(at.Elem()) {
			g.zeroElems(s, ref, at.Elem())
		} else if isStruct(elem) {
			g.storeStruct(s, ref, elem, g.st.zero(elem))
		} else {
			v.LV = g.locOfPtr(&Val{T: ref}, elem)
			g.writeLoc(s, v.LV, g.st.zero(elem))
		}
		g.vals[x] = v
	case *ssa.FieldAddr:
		p := g.val(x.X)
		st := x.X.Type().Underlying().(*types.Pointer).Elem()
		g.oblige("nil", "", sx("distinct", p.T, "0"), g.pos(in), "nil dereference")
		loc, sub, _ := g.fieldOf(p.T, st, x.Field)
		if sub != "" {
			g.vals[x] = &Val{T: sub, Ty: x.Type(), LV: loc}
		} else {
			g.vals[x] = &Val{T: sx("fld", g.fieldID(st, fieldName(st.Underlying().(*types.Struct), x.Field)), p.T), Ty: x.Type(), LV: loc}
		}
	case *ssa.Field:
		sv := g.val(x.X)
		g.define(x, sx(g.st.fieldSel(x.X.Type(), x.Field), sv.T))
	case *ssa.IndexAddr:
		g.execIndexAddr(x)
	case *ssa.Index:
		g.execIndex(x)
	case *ssa.UnOp:
		g.execUnOp(x)
	case *ssa.BinOp:
		g.execBinOp(x)
	case *ssa.Store:
		g.checkStoreSpecs(x)
		p := g.val(x.Addr)
		elem := x.Addr.Type().Underlying().(*types.Pointer).Elem()
		if p.LV == nil && !isStruct(elem) {
			g.oblige("nil", "", sx("distinct", p.T, "0"), g.pos(in), "nil dereference (store)")
		}
		g.storeThrough(s, p, elem, g.val(x.Val).T)
	case *ssa.Slice:
		g.execSlice(x)
	case *ssa.MakeSlice:
		g.execMakeSlice(x)
	case *ssa.MakeMap:
		ref := g.alloc(s)
		g.vals[x] = &Val{T: ref, Ty: x.Type()}
		mt := x.Type().Underlying().(*types.Map)
		mc := g.mapComps(mt)
		g.setHeap(s, mc.has, store(g.heapTerm(s, mc.has), ref, sx("(as const (Array "+mc.ksort+" Bool))", "false")))
		g.setHeap(s, mc.length, store(g.heapTerm(s, mc.length), ref, "0"))
	case *ssa.MakeChan:
		ref := g.alloc(s)
		g.vals[x] = &Val{T: ref, Ty: x.Type()}
	case *ssa.MakeClosure:
		fn := x.Fn.(*ssa.Function)
		v := &Val{T: g.freshConst("clo", "Int"), Ty: x.Type(), Fn: fn}
		for _, b := range x.Bindings {
			v.Binds = append(v.Binds, g.val(b))
		}
		g.assume(sx("<", v.T, "0"))
		g.vals[x] = v
		// //verif:created requires E on the closure's contract: checked where the
		// closure value is made, in the PARENT's context (its call history, its
		// locals), with the contract's parameter names bound to the captured values
		if cc := g.eng.closureContract(fn); cc != nil && len(cc.Created) > 0 {
			env := map[string]*Val{}
			for k, vv := range g.env {
				env[k] = vv
			}
			for i, n := range cc.Params {
				if i < len(v.Binds) && n != "_" {
					env[n] = v.Binds[i]
				}
			}
			for i, cl := range cc.Created {
				sc := g.specCtx(env, g.cur, g.init)
				t, err := sc.evalBool(cl.E)
				if err != nil {
					g.fail("created requires %s (closure %s): %v", cl.Src, cc.Key, err)
				}
				label := cl.Label
				if label == "" {
					label = fmt.Sprintf("%d", i)
				}
				g.oblige("created", label, t, g.pos(in), "closure "+cc.Key+" is created only when: "+cl.Src)
			}
		}
	case *ssa.MakeInterface:
		xv := g.val(x.X)
		box, _ := g.st.boxFun(x.X.Type())
		nv := g.define(x, sx(box, xv.T))
		nv.Boxed = xv
	case *ssa.ChangeInterface:
		g.define(x, g.val(x.X).T)
	case *ssa.ChangeType:
		xv := g.val(x.X)
		nv := g.define(x, xv.T)
		nv.Fn, nv.Binds = xv.Fn, xv.Binds
	case *ssa.Convert:
		g.execConvert(x)
	case *ssa.MultiConvert:
		g.vals[x] = g.havocVal(x.Type(), "mconv")
		g.abstract("MultiConvert", x.Pos())
	case *ssa.SliceToArrayPointer:
		g.vals[x] = g.havocVal(x.Type(), "s2a")
		g.abstract("SliceToArrayPointer", x.Pos())
	case *ssa.TypeAssert:
		g.execTypeAssert(x)
	case *ssa.Extract:
		tv := g.val(x.Tuple)
		if tv.Tuple == nil || x.Index >= len(tv.Tuple) {
			g.fail("extract from non-tuple %s", x.Tuple.Name())
		}
		g.vals[x] = tv.Tuple[x.Index]
	case *ssa.Lookup:
		g.execLookup(x)
	case *ssa.MapUpdate:
		g.execMapUpdate(x)
	case *ssa.Range:
		g.vals[x] = &Val{T: g.val(x.X).T, Ty: x.Type(), Binds: []*Val{g.val(x.X)}}
	case *ssa.Next:
		g.execNext(x)
	case *ssa.Select:
		g.vals[x] = g.havocVal(x.Type(), "select")
		g.abstract("Select (channel operations are not modelled)", x.Pos())
		// index within range
		g.assume(and(sx("<=", intLit(-1), g.vals[x].Tuple[0].T), sx("<", g.vals[x].Tuple[0].T, intLit(int64(len(x.States))))))
		if x.Blocking {
			g.assume(sx("<=", "0", g.vals[x].Tuple[0].T))
		}
		// the chosen case is an event contracts can talk about: a receive
		// ($recv.<field>, only when a value was received, i.e. recvOk) or a send
		// ($send.<field>, and the sent("<field>") counter)
		{
			idx := g.vals[x].Tuple[0].T
			recvOk := g.vals[x].Tuple[1].T
			for i, st := range x.States {
				chosen := eq(idx, intLit(int64(i)))
				fn := chanFieldName(st.Chan)
				if st.Dir == types.RecvOnly {
					name := "$recv"
					if fn != "" {
						name = "$recv." + fn
					}
					g.noteEvent(name, and(chosen, recvOk))
				} else {
					g.checkSendSpecsFor(fn, st.Send, chosen, x.Pos())
					if fn != "" {
						g.noteEvent("$send."+fn, chosen)
					}
				}
			}
		}
	case *ssa.Send:
		g.checkSendSpecs(x)
		g.abstract("Send (channel operations are not modelled)", x.Pos())
	case *ssa.Go:
		g.abstract("Go (spawned goroutine's effects are not modelled): "+callName(&x.Call), x.Pos())
		{
			var args []*Val
			for _, a := range x.Call.Args {
				args = append(args, g.val(a))
			}
			var recv *Val
			if x.Call.IsInvoke() {
				recv = g.val(x.Call.Value)
			}
			g.checkCallSpecs(&x.Call, in, recv, args, "go:")
		}
		g.noteCall(&x.Call, in, nil, "go:")
	case *ssa.Defer:
		k := len(g.defers)
		g.defers = append(g.defers, x)
		for _, l := range g.loops {
			if l.blocks[x.Block()] {
				g.fail("defer inside a loop is outside the supported subset")
			}
		}
		name := fmt.Sprintf("$defer:%s%d", g.inlinePrefix, k)
		g.ghostSorts[name] = "Bool"
		s.ghost[name] = "true"
	case *ssa.RunDefers:
		g.execRunDefers(x)
	case *ssa.Call:
		res := g.execCall(&x.Call, in, x.Type())
		g.vals[x] = res
	case *ssa.Panic:
		g.oblige("panic", "", "false", g.pos(in), "reachable panic")
	case *ssa.If, *ssa.Jump:
	case *ssa.Return:
		g.execReturn(x)
	default:
		g.fail("unsupported instruction %T", in)
	}
	return nil
}

func (g *Gen) execIndexAddr(x *ssa.IndexAddr) {
	base := g.val(x.X)
	idx := g.val(x.Index).T
	switch t := x.X.Type().Underlying().(type) {
	case *types.Slice:
		g.oblige("bounds", "", and(sx("<=", "0", idx), sx("<", idx, sx("sl-len", base.T))), g.pos(x), "index in range")
		g.assume(and(sx("<=", "0", idx), sx("<", idx, sx("sl-len", base.T))))
		at := sx("ix", sx("sl-off", base.T), idx)
		if isStruct(t.Elem()) {
			g.vals[x] = &Val{T: sx("elemref", sx("sl-base", base.T), at), Ty: x.Type()}
			return
		}
		g.vals[x] = &Val{T: sx("elemaddr", sx("sl-base", base.T), at), Ty: x.Type(),
			LV: &Loc{Comp: elemComp(t.Elem()), Ref: sx("sl-base", base.T), Idx: at, Ty: t.Elem()}}
	case *types.Pointer:
		at := t.Elem().Underlying().(*types.Array)
		g.oblige("bounds", "", and(sx("<=", "0", idx), sx("<", idx, intLit(at.Len()))), g.pos(x), "array index in range")
		if isStruct(at.Elem()) {
			g.vals[x] = &Val{T: sx("elemref", base.T, idx), Ty: x.Type()}
			return
		}
		g.vals[x] = &Val{T: sx("elemaddr", base.T, idx), Ty: x.Type(),
			LV: &Loc{Comp: g.localRefs[base.T] + elemComp(at.Elem()), Ref: base.T, Idx: idx, Ty: at.Elem()}}
	default:
		g.fail("IndexAddr on %s", x.X.Type())
	}
}

func (g *Gen) execIndex(x *ssa.Index) {
	base := g.val(x.X)
	idx := g.val(x.Index).T
	switch t := x.X.Type().Underlying().(type) {
	case *types.Array:
		g.oblige("bounds", "", and(sx("<=", "0", idx), sx("<", idx, intLit(t.Len()))), g.pos(x), "array index in range")
		g.define(x, sel(base.T, idx))
	case *types.Basic: // string
		g.oblige("bounds", "", and(sx("<=", "0", idx), sx("<", idx, sx("strlen", base.T))), g.pos(x), "string index in range")
		v := g.define(x, sx("strbyte", base.T, idx))
		g.assumeTypeInv(v, "0")
	default:
		v := g.havocVal(x.Type(), "index")
		g.vals[x] = v
		g.abstract(fmt.Sprintf("Index on %s", x.X.Type()), x.Pos())
	}
}

func (g *Gen) execUnOp(x *ssa.UnOp) {
	s := g.cur
	xv := g.val(x.X)
	switch x.Op {
	case token.MUL:
		elem := x.X.Type().Underlying().(*types.Pointer).Elem()
		if xv.LV == nil && !isStruct(elem) {
			g.oblige("nil", "", sx("distinct", xv.T, "0"), g.pos(x), "nil dereference (load)")
		}
		v := g.define(x, g.load(s, xv, elem))
		g.assumeTypeInv(v, g.ghostTerm(s, "$brk"))
		// loaded("F"): the value most recently read from a field named F
		if fn, _ := fieldNameOfAddr(x.X); fn != "" && g.selectors["$loaded:"+fn] && v.T != "" && g.ghostSorts["$loaded:"+fn] == g.st.sortOf(elem) {
			g.cur = g.cur.clone()
			g.cur.ghost["$loaded:"+fn] = v.T
		}
	case token.NOT:
		g.define(x, not(xv.T))
	case token.SUB:
		g.define(x, sx("-", xv.T))
	case token.XOR:
		if lo, hi, ok := intRange(x.Type()); ok && lo == "0" {
			g.define(x, sx("-", hi, xv.T))
		} else {
			g.define(x, sx("-", sx("-", xv.T), "1"))
		}
	case token.ARROW:
		g.vals[x] = g.havocVal(x.Type(), "recv")
		g.abstract("channel receive (not modelled)", x.Pos())
		// a blocking receive is an event contracts can order calls against:
		// called("$recv.<field>") for a channel read from a struct field
		name := "$recv"
		if fn := chanFieldName(x.X); fn != "" {
			name = "$recv." + fn
		}
		cond := "true"
		if x.CommaOk {
			// v, ok := <-ch: a message was received only if ok
			cond = g.vals[x].Tuple[1].T
		}
		g.noteEvent(name, cond)
	default:
		g.fail("unsupported unary op %s", x.Op)
	}
}

func pow2(n int64) string {
	r := int64(1)
	if n >= 62 {
		// big powers via string
		s := "1"
		for i := int64(0); i < n; i++ {
			s = sx("*", "2", s)
		}
		return s
	}
	for i := int64(0); i < n; i++ {
		r *= 2
	}
	return intLit(r)
}

func (g *Gen) execBinOp(x *ssa.BinOp) {
	a, b := g.val(x.X), g.val(x.Y)
	t := x.X.Type()
	var term string
	switch x.Op {
	case token.ADD:
		if bt, ok := t.Underlying().(*types.Basic); ok && bt.Info()&types.IsString != 0 {
			term = sx("str-concat", a.T, b.T)
			g.assume(eq(sx("strlen", term), sx("+", sx("strlen", a.T), sx("strlen", b.T))))
		} else {
			term = sx("+", a.T, b.T)
		}
	case token.SUB:
		term = sx("-", a.T, b.T)
	case token.MUL:
		term = sx("*", a.T, b.T)
	case token.QUO:
		if isInteger(t) {
			g.oblige("div", "", sx("distinct", b.T, "0"), g.pos(x), "division by zero")
			if _, isConst := x.Y.(*ssa.Const); isConst {
				term = sx("go-div", a.T, b.T)
			} else {
				term = sx("sym-div", a.T, b.T)
			}
		} else {
			term = g.freshConst("fdiv", g.st.sortOf(x.Type()))
		}
	case token.REM:
		g.oblige("div", "", sx("distinct", b.T, "0"), g.pos(x), "modulo by zero")
		if _, isConst := x.Y.(*ssa.Const); isConst {
			term = sx("go-mod", a.T, b.T)
		} else {
			term = sx("sym-mod", a.T, b.T)
		}
	case token.EQL, token.NEQ:
		var e string
		if _, ok := t.Underlying().(*types.Slice); ok {
			// only comparison with nil is legal
			e = eq(sx("sl-base", a.T), sx("sl-base", b.T))
			if a.T == "nil-slice" {
				e = eq(sx("sl-base", b.T), "0")
			} else if b.T == "nil-slice" {
				e = eq(sx("sl-base", a.T), "0")
			}
		} else {
			e = eq(a.T, b.T)
		}
		if x.Op == token.NEQ {
			e = not(e)
		}
		term = e
	case token.LSS, token.LEQ, token.GTR, token.GEQ:
		op := map[token.Token]string{token.LSS: "<", token.LEQ: "<=", token.GTR: ">", token.GEQ: ">="}[x.Op]
		if bt, ok := t.Underlying().(*types.Basic); ok && bt.Info()&types.IsString != 0 {
			term = g.freshConst("strcmp", "Bool")
		} else {
			term = sx(op, a.T, b.T)
		}
	case token.AND:
		if _, isBool := x.Type().Underlying().(*types.Basic); isBool && g.st.sortOf(x.Type()) == "Bool" {
			term = and(a.T, b.T)
		} else if c, ok := x.Y.(*ssa.Const); ok && isMask(c) >= 0 {
			term = sx("mod", a.T, pow2(isMask(c)))
		} else {
			term = sx("bitand", a.T, b.T)
		}
	case token.OR:
		term = sx("bitor", a.T, b.T)
	case token.XOR:
		if c, ok := x.Y.(*ssa.Const); ok && c.Value != nil && c.Value.ExactString() == "255" {
			if lo, hi, ok := intRange(t); ok && lo == "0" && hi == "255" {
				term = sx("-", "255", a.T)
				break
			}
		}
		term = sx("bitxor", a.T, b.T)
	case token.SHL:
		if c, ok := x.Y.(*ssa.Const); ok && c.Value != nil {
			n, _ := constant.Int64Val(c.Value)
			term = sx("*", a.T, pow2(n))
		} else {
			term = sx("bitshl", a.T, b.T)
		}
	case token.SHR:
		if c, ok := x.Y.(*ssa.Const); ok && c.Value != nil {
			n, _ := constant.Int64Val(c.Value)
			term = sx("div", a.T, pow2(n))
		} else {
			term = sx("bitshr", a.T, b.T)
		}
	case token.AND_NOT:
		term = sx("bitandnot", a.T, b.T)
	default:
		g.fail("unsupported binary op %s", x.Op)
	}
	g.define(x, term)
}

func isMask(c *ssa.Const) int64 {
	if c.Value == nil || c.Value.Kind() != constant.Int {
		return -1
	}
	n, ok := constant.Int64Val(c.Value)
	if !ok || n <= 0 {
		return -1
	}
	k := int64(0)
	for m := n; m&1 == 1; m >>= 1 {
		k++
	}
	if n == (1<<uint(k))-1 {
		return k
	}
	return -1
}

func (g *Gen) execSlice(x *ssa.Slice) {
	base := g.val(x.X)
	get := func(v ssa.Value, def string) string {
		if v == nil {
			return def
		}
		return g.val(v).T
	}
	switch t := x.X.Type().Underlying().(type) {
	case *types.Slice:
		lo := get(x.Low, "0")
		hi := get(x.High, sx("sl-len", base.T))
		mx := get(x.Max, sx("sl-cap", base.T))
		g.oblige("bounds", "", and(sx("<=", "0", lo), sx("<=", lo, hi), sx("<=", hi, mx), sx("<=", mx, sx("sl-cap", base.T))), g.pos(x), "slice bounds in range")
		g.assume(and(sx("<=", "0", lo), sx("<=", lo, hi), sx("<=", hi, mx), sx("<=", mx, sx("sl-cap", base.T))))
		// slicing a nil slice yields nil (base 0, cap 0)
		g.define(x, sx("mk-slice", sx("sl-base", base.T), sx("ix", sx("sl-off", base.T), lo), sx("-", hi, lo), sx("-", mx, lo)))
	case *types.Pointer:
		at := t.Elem().Underlying().(*types.Array)
		if g.localRefs[base.T] != "" {
			g.fail("slice of a non-escaping local array is outside the supported subset")
		}
		n := intLit(at.Len())
		lo := get(x.Low, "0")
		hi := get(x.High, n)
		mx := get(x.Max, n)
		g.oblige("bounds", "", and(sx("<=", "0", lo), sx("<=", lo, hi), sx("<=", hi, mx), sx("<=", mx, n)), g.pos(x), "slice bounds in range")
		g.define(x, sx("mk-slice", base.T, lo, sx("-", hi, lo), sx("-", mx, lo)))
	case *types.Basic:
		lo := get(x.Low, "0")
		hi := get(x.High, sx("strlen", base.T))
		g.oblige("bounds", "", and(sx("<=", "0", lo), sx("<=", lo, hi), sx("<=", hi, sx("strlen", base.T))), g.pos(x), "string slice bounds in range")
		v := g.define(x, sx("substr", base.T, lo, hi))
		g.assume(eq(sx("strlen", v.T), sx("-", hi, lo)))
	default:
		g.fail("Slice on %s", x.X.Type())
	}
}

func (g *Gen) execMakeSlice(x *ssa.MakeSlice) {
	s := g.cur
	ln := g.val(x.Len).T
	cp := g.val(x.Cap).T
	g.oblige("makeslice", "", and(sx("<=", "0", ln), sx("<=", ln, cp)), g.pos(x), "makeslice: len out of range")
	g.assume(and(sx("<=", "0", ln), sx("<=", ln, cp)))
	ref := g.alloc(s)
	elem := x.Type().Underlying().(*types.Slice).Elem()
	g.zeroElems(s, ref, elem)
	g.define(x, sx("mk-slice", ref, "0", ln, cp))
}

// zeroElems makes every element of the fresh backing array at ref zero.
func (g *Gen) zeroElems(s *State, ref string, elem types.Type) {
	if isStruct(elem) {
		g.forEachScalarField(elem, func(path []string, comp string, ft types.Type) {
			c := g.scalarComp(comp, ft)
			old := g.heapTerm(s, c.Name)
			n := g.newHeapVersion(c.Name)
			// forall r: n[r] = (r is an element (sub-object) of ref ? zero : old[r])
			g.assert(fmt.Sprintf("(forall ((r Int)) (! (= (select %s r) (ite (= (root r) %s) %s (select %s r))) :pattern ((select %s r))))",
				n, ref, g.st.zero(ft), old, n))
			s.heap[c.Name] = n
		})
		return
	}
	c := g.comp(elemComp(elem), "(Array Int "+g.st.sortOf(elem)+")")
	g.setHeap(s, c.Name, store(g.heapTerm(s, c.Name), ref, sx("(as const (Array Int "+g.st.sortOf(elem)+"))", g.st.zero(elem))))
}

// forEachScalarField enumerates the scalar components of a struct type
// (nested structs flattened; arrays skipped).
func (g *Gen) forEachScalarField(t types.Type, f func(path []string, comp string, ft types.Type)) {
	u := t.Underlying().(*types.Struct)
	for i := 0; i < u.NumFields(); i++ {
		fld := u.Field(i)
		switch {
		case isStruct(fld.Type()):
			g.forEachScalarField(fld.Type(), f)
		case isArray(fld.Type()):
		default:
			f(nil, fieldComp(t, fieldName(u, i)), fld.Type())
		}
	}
}

func (g *Gen) execConvert(x *ssa.Convert) {
	xv := g.val(x.X)
	from, to := x.X.Type().Underlying(), x.Type().Underlying()
	fb, fok := from.(*types.Basic)
	tb, tok := to.(*types.Basic)
	switch {
	case fok && tok && fb.Info()&types.IsInteger != 0 && tb.Info()&types.IsInteger != 0:
		// narrowing to an unsigned type wraps; everything else is the identity on
		// mathematical integers (overflow is an explicit, listed assumption)
		if lo, hi, ok := intRange(x.Type()); ok && lo == "0" && g.eng.sizes.Sizeof(to) < g.eng.sizes.Sizeof(from) {
			_ = hi
			g.define(x, sx("mod", xv.T, pow2(g.eng.sizes.Sizeof(to)*8)))
		} else {
			g.define(x, xv.T)
		}
	case fok && tok && fb.Info()&types.IsString != 0 && tb.Info()&types.IsString != 0:
		g.define(x, xv.T)
	case fok && fb.Info()&types.IsString != 0:
		// string -> []byte / []rune : fresh slice whose length is the string length
		if sl, ok := to.(*types.Slice); ok {
			ref := g.alloc(g.cur)
			v := g.define(x, sx("mk-slice", ref, "0", sx("strlen", xv.T), sx("strlen", xv.T)))
			_ = v
			if b, ok := sl.Elem().Underlying().(*types.Basic); ok && b.Kind() == types.Uint8 {
				c := g.comp(elemComp(sl.Elem()), "(Array Int Int)")
				g.setHeap(g.cur, c.Name, store(g.heapTerm(g.cur, c.Name), ref, sx("str-bytes", xv.T)))
			}
			return
		}
		g.vals[x] = g.havocVal(x.Type(), "conv")
	case tok && tb.Info()&types.IsString != 0:
		if sl, ok := from.(*types.Slice); ok {
			if b, ok := sl.Elem().Underlying().(*types.Basic); ok && b.Kind() == types.Uint8 {
				c := g.comp(elemComp(sl.Elem()), "(Array Int Int)")
				arr := sel(g.heapTerm(g.cur, c.Name), sx("sl-base", xv.T))
				v := g.define(x, sx("bytes-str", arr, sx("sl-off", xv.T), sx("sl-len", xv.T)))
				g.assume(eq(sx("strlen", v.T), sx("sl-len", xv.T)))
				return
			}
		}
		g.vals[x] = g.havocVal(x.Type(), "conv")
	default:
		if g.st.sortOf(x.X.Type()) == g.st.sortOf(x.Type()) {
			if _, isPtr := to.(*types.Pointer); isPtr || (fok && tok && fb.Info()&types.IsFloat == 0 && tb.Info()&types.IsFloat == 0) {
				g.define(x, xv.T)
				return
			}
		}
		g.vals[x] = g.havocVal(x.Type(), "conv")
	}
}

func (g *Gen) execTypeAssert(x *ssa.TypeAssert) {
	xv := g.val(x.X)
	var ok, val string
	if types.IsInterface(x.AssertedType) {
		ok = and(sx("distinct", xv.T, "0"), sx("implements", sx("dyntype", xv.T), intLit(int64(g.st.typeID(x.AssertedType)))))
		if it, isI := x.AssertedType.Underlying().(*types.Interface); isI && it.NumMethods() == 0 {
			ok = sx("distinct", xv.T, "0")
		}
		val = xv.T
	} else {
		_, unbox := g.st.boxFun(x.AssertedType)
		ok = and(sx("distinct", xv.T, "0"), eq(sx("dyntype", xv.T), intLit(int64(g.st.typeID(x.AssertedType)))))
		val = sx(unbox, xv.T)
	}
	if x.CommaOk {
		okc := g.freshConst("ok", "Bool")
		g.assert(eq(okc, ok))
		vc := g.freshConst("ta", g.st.sortOf(x.AssertedType))
		g.assert(eq(vc, ite(okc, val, g.st.zero(x.AssertedType))))
		tv := &Val{T: vc, Ty: x.AssertedType}
		g.assumeTypeInv(tv, g.ghostTerm(g.cur, "$brk"))
		g.vals[x] = &Val{Ty: x.Type(), Tuple: []*Val{tv, {T: okc, Ty: types.Typ[types.Bool]}}}
		return
	}
	g.oblige("assert", "", ok, g.pos(x), "type assertion holds")
	g.assume(ok)
	nv := g.define(x, val)
	g.assumeTypeInv(nv, g.ghostTerm(g.cur, "$brk"))
}

type mapCompNames struct {
	val, has, length string
	ksort, vsort     string
}

func (g *Gen) mapComps(mt *types.Map) mapCompNames {
	k := "map[" + typeKey(mt.Key()) + "]" + typeKey(mt.Elem())
	ks, vs := g.st.sortOf(mt.Key()), g.st.sortOf(mt.Elem())
	m := mapCompNames{val: k + ".val", has: k + ".has", length: k + ".len", ksort: ks, vsort: vs}
	g.comp(m.val, "(Array "+ks+" "+vs+")")
	g.comp(m.has, "(Array "+ks+" Bool)")
	g.comp(m.length, "Int")
	return m
}

func (g *Gen) execLookup(x *ssa.Lookup) {
	s := g.cur
	mv := g.val(x.X)
	kv := g.val(x.Index)
	mt, isMap := x.X.Type().Underlying().(*types.Map)
	if !isMap {
		// string index
		g.oblige("bounds", "", and(sx("<=", "0", kv.T), sx("<", kv.T, sx("strlen", mv.T))), g.pos(x), "string index in range")
		v := g.define(x, sx("strbyte", mv.T, kv.T))
		g.assumeTypeInv(v, "0")
		return
	}
	mc := g.mapComps(mt)
	has := and(sx("distinct", mv.T, "0"), sel(sel(g.heapTerm(s, mc.has), mv.T), kv.T))
	val := ite(has, sel(sel(g.heapTerm(s, mc.val), mv.T), kv.T), g.st.zero(mt.Elem()))
	if x.CommaOk {
		okc := g.freshConst("has", "Bool")
		g.assert(eq(okc, has))
		vc := g.freshConst("mv", mc.vsort)
		g.assert(eq(vc, val))
		vv := &Val{T: vc, Ty: mt.Elem()}
		g.assumeTypeInv(vv, g.ghostTerm(s, "$brk"))
		g.vals[x] = &Val{Ty: x.Type(), Tuple: []*Val{vv, {T: okc, Ty: types.Typ[types.Bool]}}}
		return
	}
	v := g.define(x, val)
	g.assumeTypeInv(v, g.ghostTerm(s, "$brk"))
}

func (g *Gen) execMapUpdate(x *ssa.MapUpdate) {
	s := g.cur
	mv := g.val(x.Map)
	kv := g.val(x.Key)
	vv := g.val(x.Value)
	mt := x.Map.Type().Underlying().(*types.Map)
	mc := g.mapComps(mt)
	g.oblige("mapwrite", "", sx("distinct", mv.T, "0"), g.pos(x), "assignment to entry in nil map")
	hasArr := sel(g.heapTerm(s, mc.has), mv.T)
	had := sel(hasArr, kv.T)
	ln := sel(g.heapTerm(s, mc.length), mv.T)
	g.setHeap(s, mc.length, store(g.heapTerm(s, mc.length), mv.T, ite(had, ln, sx("+", ln, "1"))))
	g.setHeap(s, mc.has, store(g.heapTerm(s, mc.has), mv.T, store(hasArr, kv.T, "true")))
	g.setHeap(s, mc.val, store(g.heapTerm(s, mc.val), mv.T, store(sel(g.heapTerm(s, mc.val), mv.T), kv.T, vv.T)))
}

func (g *Gen) execNext(x *ssa.Next) {
	s := g.cur
	it := g.val(x.Iter)
	res := g.havocVal(x.Type(), "next")
	g.vals[x] = res
	if x.IsString || len(it.Binds) == 0 {
		return
	}
	if mt, ok := it.Binds[0].Ty.Underlying().(*types.Map); ok {
		mc := g.mapComps(mt)
		m := it.Binds[0].T
		okv, k, v := res.Tuple[0].T, res.Tuple[1], res.Tuple[2]
		if k.T != "" && g.st.sortOf(k.Ty) == mc.ksort {
			g.assume(imp(okv, and(sx("distinct", m, "0"), sel(sel(g.heapTerm(s, mc.has), m), k.T))))
			if v.T != "" && g.st.sortOf(v.Ty) == mc.vsort {
				g.assume(imp(okv, eq(v.T, sel(sel(g.heapTerm(s, mc.val), m), k.T))))
			}
		}
	}
}

func (g *Gen) execReturn(x *ssa.Return) {
	var results []*Val
	for _, r := range x.Results {
		results = append(results, g.val(r))
	}
	if g.inlineRets != nil {
		*g.inlineRets = append(*g.inlineRets, inlineRet{g.curGuard, g.cur, results})
		return
	}
	g.retCount++
	g.checkEnsures(results, g.pos(x), fmt.Sprintf("ret%d", g.retCount))
}

func (g *Gen) checkEnsures(results []*Val, pos token.Pos, site string) {
	if g.con == nil {
		return
	}
	env := map[string]*Val{}
	for k, v := range g.env {
		env[k] = v
	}
	for i, n := range g.con.Results {
		if i < len(results) && n != "_" {
			env[n] = results[i]
		}
	}
	sc := g.specCtx(env, g.cur, g.init)
	for _, cl := range g.con.Hints {
		t, err := sc.evalBool(cl.E)
		if err != nil {
			g.fail("hint %s: %v", cl.Src, err)
		}
		g.assume(t)
		g.noteLemmaUse(cl.E)
	}
	for i, cl := range g.con.Ensures {
		t, err := sc.evalBool(cl.E)
		if err != nil {
			g.fail("ensures %s: %v", cl.Src, err)
		}
		label := cl.Label
		if label == "" {
			label = fmt.Sprintf("%d", i)
		}
		g.oblige("post", label+":"+site, t, pos, cl.Src)
	}
	if g.con.HasMod {
		g.checkFrame(env, pos, site)
	}
}

// execDebugRef tracks source-level local variables so that contracts can name them.
func (g *Gen) execDebugRef(x *ssa.DebugRef) {
	id, ok := x.Expr.(*ast.Ident)
	if !ok {
		return
	}
	obj := g.fn.Pkg.Pkg.Scope().Innermost(id.Pos())
	_ = obj
	var o types.Object
	if info := g.eng.typesInfo(g.fn); info != nil {
		o = info.ObjectOf(id)
	}
	v, isVar := o.(*types.Var)
	if !isVar || v.IsField() {
		return
	}
	name := g.localName[v]
	if name == "" {
		return
	}
	val, ok := g.vals[x.X]
	if !ok {
		if _, isC := x.X.(*ssa.Const); isC {
			val = g.val(x.X)
		} else if _, isG := x.X.(*ssa.Global); isG {
			return
		} else if _, isF := x.X.(*ssa.Function); isF {
			return
		} else {
			return
		}
	}
	if g.memLocals[name] {
		return // value is read from its cell
	}
	if x.IsAddr {
		g.localAddr[name] = val
		delete(g.cur.ghost, "$local:"+name)
		return
	}
	if val.T == "" {
		return
	}
	delete(g.localAddr, name)
	gn := "$local:" + name
	g.ghostSorts[gn] = g.st.sortOf(v.Type())
	g.localTypes[gn] = v.Type()
	if g.st.sortOf(x.X.Type()) != g.ghostSorts[gn] {
		return
	}
	g.cur.ghost[gn] = val.T
}

// prescanLocals records the types of the function's source-level locals, so a
// contract can mention a local at a point where it has no value yet (it then
// denotes an arbitrary value of its type).
func (g *Gen) prescanLocals() {
	g.localObjs = map[string]types.Object{}
	g.localAmbig = map[string]bool{}
	g.localTypes = map[string]types.Type{}
	g.localAddr = map[string]*Val{}
	g.localName = map[types.Object]string{}
	info := g.eng.typesInfo(g.fn)
	if info == nil {
		return
	}
	byName := map[string][]*types.Var{}
	seen := map[*types.Var]bool{}
	for _, b := range g.fn.Blocks {
		for _, in := range b.Instrs {
			dr, ok := in.(*ssa.DebugRef)
			if !ok {
				continue
			}
			id, ok := dr.Expr.(*ast.Ident)
			if !ok || id.Name == "_" {
				continue
			}
			v, isVar := info.ObjectOf(id).(*types.Var)
			if !isVar || v.IsField() || seen[v] {
				continue
			}
			if v.Pkg() != nil && v.Parent() == v.Pkg().Scope() {
				continue // package-level variable, not a local
			}
			seen[v] = true
			byName[id.Name] = append(byName[id.Name], v)
		}
	}
	for _, name := range sortedKeys(byName) {
		vs := byName[name]
		sort.Slice(vs, func(i, j int) bool { return vs[i].Pos() < vs[j].Pos() })
		for k, v := range vs {
			// a name declared once is used as is; otherwise name$1, name$2, ... in
			// order of declaration (the plain name is then ambiguous)
			spec := name
			if len(vs) > 1 {
				spec = fmt.Sprintf("%s$%d", name, k+1)
				g.localAmbig[name] = true
			}
			g.localName[v] = spec
			g.localObjs[spec] = v
			g.localTypes["$local:"+spec] = v.Type()
			g.ghostSorts["$local:"+spec] = g.st.sortOf(v.Type())
		}
	}
}

func fieldNameOfAddr(v ssa.Value) (string, ssa.Value) {
	if fa, ok := v.(*ssa.FieldAddr); ok {
		st := fa.X.Type().Underlying().(*types.Pointer).Elem().Underlying().(*types.Struct)
		return st.Field(fa.Field).Name(), fa.X
	}
	return "", nil
}

// checkStoreSpecs: //verif:store <field> requires <expr> -- evaluated in the state
// before the store, with newval bound to the stored value.
func (g *Gen) checkStoreSpecs(x *ssa.Store) {
	fname, base := fieldNameOfAddr(x.Addr)
	if fname == "" {
		return
	}
	// inside an inlined helper a store that initialises an object the helper has
	// just allocated is not "a store of this function" in the sense of its contract
	exempt := "false"
	if len(g.inlineStack) > 0 && base != nil {
		if bv, ok := g.vals[base]; ok && bv.T != "" {
			exempt = sx(">=", sx("root", bv.T), "brk0")
		}
	}
	if g.selectors["$stored:"+fname] {
		g.cur.ghost["$stored:"+fname] = "true"
		g.ghostSorts["$stored:"+fname] = "Bool"
	}
	if g.con == nil {
		return
	}
	for _, sp := range g.con.Stores {
		if sp.Sel != fname {
			continue
		}
		g.callSelCount["store:"+sp.Sel]++
		env := map[string]*Val{}
		for k, v := range g.env {
			env[k] = v
		}
		env["newval"] = g.val(x.Val)
		sc := g.specCtx(env, g.cur, g.init)
		t, err := sc.evalBool(sp.Cl.E)
		if err != nil {
			g.fail("store %s requires %s: %v", sp.Sel, sp.Cl.Src, err)
		}
		label := sp.Cl.Label
		if label == "" {
			label = sp.Sel
		}
		if exempt != "false" {
			t = or(exempt, t)
		}
		g.oblige("store", label, t, g.pos(x), "store to ."+sp.Sel+" requires "+sp.Cl.Src)
	}
}

// checkSendSpecs: //verif:send <chanfield> requires <expr> (sentval bound).
func (g *Gen) checkSendSpecs(x *ssa.Send) {
	fn := chanFieldName(x.Chan)
	g.checkSendSpecsFor(fn, x.X, "true", x.Pos())
	if fn != "" {
		g.noteEvent("$send."+fn, "true")
	}
}

// checkSendSpecsFor: //verif:send <field> requires <expr> for a send of val on the
// channel held in <field>; cond is the condition under which the send happens (a
// select case).
func (g *Gen) checkSendSpecsFor(fname string, val ssa.Value, cond string, pos token.Pos) {
	if g.con == nil || fname == "" {
		return
	}
	for _, sp := range g.con.Sends {
		if sp.Sel != fname {
			continue
		}
		g.callSelCount["send:"+sp.Sel]++
		env := map[string]*Val{}
		for k, v := range g.env {
			env[k] = v
		}
		env["sentval"] = g.val(val)
		sc := g.specCtx(env, g.cur, g.init)
		t, err := sc.evalBool(sp.Cl.E)
		if err != nil {
			g.fail("send %s requires %s: %v", sp.Sel, sp.Cl.Src, err)
		}
		label := sp.Cl.Label
		if label == "" {
			label = sp.Sel
		}
		g.oblige("send", label, imp(cond, t), pos, "send on ."+sp.Sel+" requires "+sp.Cl.Src)
	}
	if g.selectors["$sent:"+fname] {
		inc := "1"
		if cond != "true" {
			inc = sx("ite", cond, "1", "0")
		}
		g.cur.ghost["$sent:"+fname] = sx("+", g.ghostTerm(g.cur, "$sent:"+fname), inc)
	}
}

// chanFieldName: the struct field a channel operand was loaded from (n.in, or an
// element of a slice field, n.out[0]); "" otherwise.
func chanFieldName(v ssa.Value) string {
	ld, ok := v.(*ssa.UnOp)
	if !ok || ld.Op != token.MUL {
		return ""
	}
	if fn, _ := fieldNameOfAddr(ld.X); fn != "" {
		return fn
	}
	if ia, ok := ld.X.(*ssa.IndexAddr); ok {
		if ld2, ok := ia.X.(*ssa.UnOp); ok && ld2.Op == token.MUL {
			if fn, _ := fieldNameOfAddr(ld2.X); fn != "" {
				return fn
			}
		}
	}
	return ""
}

// noteEvent records a non-call event (channel receive / send) in the call-history
// ghosts, under condition cond.
func (g *Gen) noteEvent(name, cond string) {
	if !g.selectors[name] {
		return
	}
	s := g.cur
	g.ghostSorts["$called:"+name] = "Bool"
	g.ghostSorts["$ok:"+name] = "Bool"
	s.ghost["$called:"+name] = or(g.ghostTerm(s, "$called:"+name), cond)
	s.ghost["$ok:"+name] = or(cond, g.ghostTerm(s, "$ok:"+name))
	inc := "1"
	if cond != "true" {
		inc = sx("ite", cond, "1", "0")
	}
	s.ghost["$count:"+name] = sx("+", g.ghostTerm(s, "$count:"+name), inc)
	for _, sn := range g.sinces {
		gn := "$since:" + sn[0] + "|" + sn[1]
		if sn[1] == name {
			s.ghost[gn] = sx("ite", cond, "0", g.ghostTerm(s, gn))
		} else if sn[0] == name {
			s.ghost[gn] = sx("+", g.ghostTerm(s, gn), inc)
		}
	}
}

// instrEvents: the event names an instruction may fire (for loop write sets).
func instrEvents(in ssa.Instruction) []string {
	var out []string
	switch x := in.(type) {
	case *ssa.UnOp:
		if x.Op == token.ARROW {
			out = append(out, "$recv")
			if fn := chanFieldName(x.X); fn != "" {
				out = append(out, "$recv."+fn)
			}
		}
	case *ssa.Send:
		if fn := chanFieldName(x.Chan); fn != "" {
			out = append(out, "$send."+fn)
		}
	case *ssa.Select:
		for _, st := range x.States {
			fn := chanFieldName(st.Chan)
			if st.Dir == types.RecvOnly {
				out = append(out, "$recv")
				if fn != "" {
					out = append(out, "$recv."+fn)
				}
			} else if fn != "" {
				out = append(out, "$send."+fn)
			}
		}
	}
	return out
}

// cidrAxiom: for a string constant that parses as a CIDR, the meaning of
// (*net.IPNet).Contains for the network net.ParseCIDR yields, written out over
// the candidate's bytes.  The parse is done here, with the same net.ParseCIDR the
// code under verification calls (trusted: the engine and the program agree on it).
func cidrAxiom(s string, id int) string {
	_, n, err := net.ParseCIDR(s)
	if err != nil || !strings.Contains(s, "/") {
		return ""
	}
	ones, _ := n.Mask.Size()
	nn := n.IP
	v4 := len(nn) == 4
	if len(nn) == 16 {
		if x := nn.To4(); x != nil && len(n.Mask) == 16 {
			// networkNumberAndMask would convert; none of conduit's tables use such a form
			return ""
		}
	}
	at := func(i int) string {
		if v4 {
			return fmt.Sprintf("(ite (= l 4) (select a (+ o %d)) (select a (+ o %d)))", i, 12+i)
		}
		return fmt.Sprintf("(select a (+ o %d))", i)
	}
	var conj []string
	for i := 0; i < len(nn); i++ {
		bits := ones - 8*i
		if bits <= 0 {
			break
		}
		if bits >= 8 {
			conj = append(conj, fmt.Sprintf("(= %s %d)", at(i), nn[i]))
		} else {
			d := 1 << uint(8-bits)
			conj = append(conj, fmt.Sprintf("(= (div %s %d) %d)", at(i), d, int(nn[i])/d))
		}
	}
	mapped := "(and (= l 16) (= (select a (+ o 0)) 0) (= (select a (+ o 1)) 0) (= (select a (+ o 2)) 0) (= (select a (+ o 3)) 0) (= (select a (+ o 4)) 0) (= (select a (+ o 5)) 0) (= (select a (+ o 6)) 0) (= (select a (+ o 7)) 0) (= (select a (+ o 8)) 0) (= (select a (+ o 9)) 0) (= (select a (+ o 10)) 255) (= (select a (+ o 11)) 255))"
	var dom string
	if v4 {
		dom = "(or (= l 4) " + mapped + ")"
	} else {
		dom = "(and (= l 16) (not " + mapped + "))"
	}
	body := and(append([]string{dom}, conj...)...)
	return fmt.Sprintf("(assert (is_valid_cidr %d))\n(assert (forall ((a (Array Int Int)) (o Int) (l Int)) (! (= (cidr_contains %d a o l) %s) :pattern ((cidr_contains %d a o l)))))", id, id, body, id)
}

// prescanCalls registers the result sorts of every call whose selector the
// contract tracks, so result_of() is well-sorted on paths that have not (yet)
// made the call (its value is then arbitrary; guard it with called()).
func (g *Gen) prescanCalls() {
	if g.ghostTypes == nil {
		g.ghostTypes = map[string]types.Type{}
	}
	var ccs []*ssa.CallCommon
	var scan func(fn *ssa.Function, depth int)
	scan = func(fn *ssa.Function, depth int) {
		for _, b := range fn.Blocks {
			for _, in := range b.Instrs {
				if ld, ok := in.(*ssa.UnOp); ok && ld.Op == token.MUL {
					if fn, _ := fieldNameOfAddr(ld.X); fn != "" && g.selectors["$loaded:"+fn] {
						gn := "$loaded:" + fn
						if g.ghostSorts[gn] == "" {
							g.ghostSorts[gn] = g.st.sortOf(ld.Type())
							g.ghostTypes[gn] = ld.Type()
						}
					}
				}
				var cc *ssa.CallCommon
				switch x := in.(type) {
				case *ssa.Call:
					cc = &x.Call
				case *ssa.Defer:
					cc = &x.Call
				}
				if cc == nil {
					continue
				}
				ccs = append(ccs, cc)
				// helpers that will be inlined contribute their calls too
				if callee := cc.StaticCallee(); callee != nil && !cc.IsInvoke() && depth < 3 && g.canInline(callee) {
					scan(callee, depth+1)
				}
			}
		}
	}
	scan(g.fn, 1)
	for _, cc := range ccs {
		for _, name := range callNames(cc) {
			if !g.selectors[name] {
				continue
			}
			for ai, a := range cc.Args {
				gn := fmt.Sprintf("$arg:%s:%d", name, ai)
				if g.argOfWanted[gn] && g.ghostSorts[gn] == "" {
					g.ghostSorts[gn] = g.st.sortOf(a.Type())
					g.ghostTypes[gn] = a.Type()
				}
			}
			rs := cc.Signature().Results()
			for ri := 0; ri < rs.Len(); ri++ {
				gn := fmt.Sprintf("$res:%s:%d", name, ri)
				if g.ghostSorts[gn] == "" {
					g.ghostSorts[gn] = g.st.sortOf(rs.At(ri).Type())
					g.ghostTypes[gn] = rs.At(ri).Type()
				}
			}
		}
	}
}


// contractBinding maps a contract's parameter names onto a function's free variables
// and parameters (in that order): BY NAME where the function has a value of that name
// (robust against a changed capture order or an added captured variable), by position
// for the rest.  Entry i is the contract name bound to the i-th value ("" = none).
func contractBinding(fn *ssa.Function, names []string) []string {
	var allVals []ssa.Value
	for _, fv := range fn.FreeVars {
		allVals = append(allVals, fv)
	}
	for _, p := range fn.Params {
		allVals = append(allVals, p)
	}
	valName := map[string]int{}
	for i, v := range allVals {
		if v.Name() != "_" && v.Name() != "" {
			if _, dup := valName[v.Name()]; !dup {
				valName[v.Name()] = i
			}
		}
	}
	bindName := make([]string, len(allVals))
	nameUsed := make([]bool, len(names))
	for ni, n := range names {
		if n == "_" {
			continue
		}
		if i, ok := valName[n]; ok && bindName[i] == "" {
			bindName[i] = n
			nameUsed[ni] = true
		}
	}
	if len(names) == len(allVals) {
		vi := 0
		for ni, n := range names {
			if nameUsed[ni] {
				continue
			}
			for vi < len(allVals) && bindName[vi] != "" {
				vi++
			}
			if vi < len(allVals) {
				bindName[vi] = n
				vi++
			}
		}
	} else {
		for ni, n := range names {
			if nameUsed[ni] || ni >= len(allVals) || bindName[ni] != "" {
				continue
			}
			bindName[ni] = n
		}
	}
	return bindName
}
