package main

// tryReplay turns a solver model into a concrete test of the real function.
// Returns true when the failure is confirmed on the real code.
func tryReplay(e *Engine, f *failure, rec map[string]any) bool {
	return false
}
