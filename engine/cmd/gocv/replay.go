package main

import (
	"context"
	"encoding/json"
	"fmt"
	"os"
	"os/exec"
	"path/filepath"
	"strings"
	"time"
)

// Counterexample search on the real code.
//
// The solvers never hand back a model for a failed obligation here: every query
// carries the quantified axioms of the heap model, so a goal that does not hold
// comes back "unknown", not "sat".  A failed obligation therefore has no solver
// counterexample to replay.  What can be done instead is to look for a concrete
// failing input directly: for functions with an input/output reading of the
// property there is a hand-written *driver* under /verif/replay_drivers - an
// in-package Go test that runs the REAL function (injected with `go test
// -overlay`, nothing is written to /repo) on a deterministic stream of small
// inputs and checks the clause's meaning with an independent oracle written from
// the property statement.  When a driver finds an input on which the real code
// breaks the clause, the violation is reported with that input; otherwise the
// violation is still reported, ending in no-failing-input-found.  Drivers are
// only consulted AFTER an obligation failed; they never decide a property.

type replayDriver struct {
	// Match: prefix of the obligation name (the function's display name), e.g.
	// "egress.Refuse#"
	Match []string `json:"match"`
	Pkg   string   `json:"pkg"`  // package pattern relative to /repo, e.g. ./pkg/plugin/processor/egress
	File  string   `json:"file"` // driver source under /verif/replay_drivers
	Test  string   `json:"test"` // test function name
	Note  string   `json:"note,omitempty"`
}

func loadDrivers(verifDir string) []replayDriver {
	b, err := os.ReadFile(filepath.Join(verifDir, "replay_drivers", "index.json"))
	if err != nil {
		return nil
	}
	var idx struct {
		Drivers []replayDriver `json:"drivers"`
	}
	if json.Unmarshal(b, &idx) != nil {
		return nil
	}
	return idx.Drivers
}

func findDriver(verifDir, obligation string) *replayDriver {
	for _, d := range loadDrivers(verifDir) {
		for _, m := range d.Match {
			// (a contract-mismatch failure is named by the full package path)
			if strings.HasPrefix(obligation, m) || strings.Contains(obligation, "/"+m) {
				dd := d
				return &dd
			}
		}
	}
	return nil
}

// runDriver runs a driver against the real code.  input == "" searches; otherwise
// the recorded input is re-run.  Returns the driver's report (nil if it found
// nothing) and a transcript.
func runDriver(repo, verifDir string, d *replayDriver, obligation, input string, seed int, budgetS int) (map[string]any, string) {
	rep, tr, _ := runDriverStats(repo, verifDir, d, obligation, input, seed, budgetS)
	return rep, tr
}

// runDriverStats: as runDriver, also returning the number of cases the driver ran.
func runDriverStats(repo, verifDir string, d *replayDriver, obligation, input string, seed int, budgetS int) (map[string]any, string, int) {
	src := filepath.Join(verifDir, "replay_drivers", d.File)
	if _, err := os.Stat(src); err != nil {
		return nil, "driver source missing: " + src, 0
	}
	scratch, err := os.MkdirTemp("/var/tmp", "verif-replay-")
	if err != nil {
		return nil, err.Error(), 0
	}
	defer os.RemoveAll(scratch)
	pkgDir := filepath.Join(repo, strings.TrimPrefix(d.Pkg, "./"))
	target := filepath.Join(pkgDir, "zz_verif_replay_test.go")
	ov := map[string]any{"Replace": map[string]string{target: src}}
	ob, _ := json.Marshal(ov)
	ovPath := filepath.Join(scratch, "overlay.json")
	os.WriteFile(ovPath, ob, 0o644)
	outPath := filepath.Join(scratch, "found.json")
	ctx, cancel := context.WithTimeout(context.Background(), time.Duration(budgetS+120)*time.Second)
	defer cancel()
	cmd := exec.CommandContext(ctx, "go", "test", "-overlay", ovPath, "-vet=off", "-count=1",
		"-timeout", fmt.Sprintf("%ds", budgetS+60), "-run", "^"+d.Test+"$", d.Pkg)
	cmd.Dir = repo
	cmd.Env = append(goEnv(),
		"VERIF_REPLAY_OUT="+outPath,
		"VERIF_REPLAY_STATS="+outPath+".stats",
		"VERIF_REPLAY_OBLIGATION="+obligation,
		"VERIF_REPLAY_INPUT="+input,
		fmt.Sprintf("VERIF_REPLAY_SEED=%d", seed),
		fmt.Sprintf("VERIF_REPLAY_BUDGET_S=%d", budgetS))
	out, _ := cmd.CombinedOutput()
	transcript := trunc(string(out), 6000)
	cases := 0
	if sb, err := os.ReadFile(outPath + ".stats"); err == nil {
		var st struct {
			Cases int `json:"cases"`
		}
		if json.Unmarshal(sb, &st) == nil {
			cases = st.Cases
		}
	}
	b, err := os.ReadFile(outPath)
	if err != nil {
		return nil, transcript, cases
	}
	var rep map[string]any
	if json.Unmarshal(b, &rep) != nil {
		return nil, transcript, cases
	}
	if c, ok := rep["cases_tried"].(float64); ok {
		cases = int(c)
	}
	return rep, transcript, cases
}

// boundedStandIns runs, in the thorough tier, every driver that covers a function of
// the property on the unchanged/current tree with a longer budget.  This is a BOUNDED
// search with an independent oracle written from the property statement - it is
// reported as such and never counted among the discharged obligations - but an input
// on which the real code breaks the oracle is a violation with a concrete failing input.
func boundedStandIns(repo, verifDir string, fnNames []string, seed, budgetS int, only []string) (results []map[string]any, found []map[string]any) {
	seen := map[string]bool{}
	for _, d := range loadDrivers(verifDir) {
		if only != nil && !contains(only, d.File) {
			continue
		}
		hit := ""
		for _, m := range d.Match {
			for _, fn := range fnNames {
				if strings.HasPrefix(fn+"#", m) || strings.HasPrefix(m, fn+"#") || (strings.HasSuffix(m, ".") && strings.HasPrefix(fn, m)) {
					hit = fn
				}
			}
		}
		key := d.File + "|" + d.Test
		if hit == "" || seen[key] {
			continue
		}
		seen[key] = true
		dd := d
		rep, transcript, cases := runDriverStats(repo, verifDir, &dd, hit+"#bounded", "", seed, budgetS)
		r := map[string]any{"driver": d.File, "test": d.Test, "package": d.Pkg, "what": d.Note, "budget_s": budgetS, "seed": seed, "cases": cases, "found_failing_input": rep != nil}
		if rep != nil {
			r["failing_input"] = rep["input"]
			r["clause"] = rep["clause"]
			r["observed"] = rep["observed"]
			r["expected"] = rep["expected"]
			rep["driver"] = d.File
			rep["function"] = hit
			ib, _ := json.Marshal(rep["input"])
			rep["input_json"] = string(ib)
			found = append(found, rep)
		} else if cases == 0 {
			r["note"] = "driver did not report its case count: " + lastLines(transcript, 3)
		}
		results = append(results, r)
	}
	return results, found
}

type driverResult struct {
	rep        map[string]any
	transcript string
}

var driverCache = map[string]driverResult{}

// tryReplay looks for a concrete failing input with the function's driver.
func tryReplay(e *Engine, f *failure, rec map[string]any) bool {
	d := findDriver(e.verifDir, f.Name)
	if d == nil {
		return false
	}
	seed := 1
	fmt.Sscanf(os.Getenv("VERIF_SEED"), "%d", &seed)
	// one search per driver and run: several obligations of one function share it
	key := d.File + "|" + d.Test
	cached, ok := driverCache[key]
	if !ok {
		r, t := runDriver(e.repo, e.verifDir, d, f.Name, "", seed, 20)
		cached = driverResult{r, t}
		driverCache[key] = cached
	}
	rep, transcript := cached.rep, cached.transcript
	info := map[string]any{"attempted": true, "driver": d.File, "test": d.Test, "package": d.Pkg, "seed": seed}
	if rep == nil {
		info["found"] = false
		info["why"] = "the driver ran the real function on its stream of small inputs and found none that breaks the clause"
		info["transcript_tail"] = lastLines(transcript, 12)
		rec["replay"] = info
		return false
	}
	info["found"] = true
	info["failing_input"] = rep["input"]
	info["observed"] = rep["observed"]
	info["expected"] = rep["expected"]
	info["clause"] = rep["clause"]
	ib, _ := json.Marshal(rep["input"])
	info["rerun"] = "./check --replay <this file>   (re-runs " + d.Test + " in " + d.Pkg + " on the recorded input)"
	info["input_json"] = string(ib)
	info["transcript_tail"] = lastLines(transcript, 12)
	rec["replay"] = info
	return true
}

func lastLines(s string, n int) string {
	l := strings.Split(strings.TrimRight(s, "\n"), "\n")
	if len(l) > n {
		l = l[len(l)-n:]
	}
	return strings.Join(l, "\n")
}

// cmdReplay: ./check --replay <path>: re-run the recorded failing input of a
// replay file on the current tree.  Exit 1 when the real code still fails on it.
func cmdReplay(args []string) {
	if len(args) != 1 {
		fmt.Fprintln(os.Stderr, "usage: gocv replay <replay.json>")
		os.Exit(2)
	}
	b, err := os.ReadFile(args[0])
	if err != nil {
		fmt.Fprintln(os.Stderr, "gocv:", err)
		os.Exit(2)
	}
	var rec map[string]any
	if err := json.Unmarshal(b, &rec); err != nil {
		fmt.Fprintln(os.Stderr, "gocv:", err)
		os.Exit(2)
	}
	fmt.Printf("obligation: %v\nclause: %v\nat: %v\nsolver: %v (%v)\n", rec["obligation"], rec["clause"], rec["at"], rec["solver"], rec["solver_status"])
	rp, _ := rec["replay"].(map[string]any)
	if rp == nil || rp["found"] != true {
		fmt.Println("this violation has no recorded failing input (no-failing-input-found); the failed obligation and the solver's output are in the file")
		if sf, ok := rec["smt_file"].(string); ok {
			fmt.Println("query:", sf)
		}
		os.Exit(0)
	}
	verifDir := envOr("VERIF_DIR", "/verif")
	repo := envOr("VERIF_REPO", "/repo")
	d := findDriver(verifDir, fmt.Sprint(rec["obligation"]))
	if d == nil {
		fmt.Println("no driver for this obligation any more")
		os.Exit(2)
	}
	input, _ := rp["input_json"].(string)
	rep, transcript := runDriver(repo, verifDir, d, fmt.Sprint(rec["obligation"]), input, 1, 20)
	fmt.Println(lastLines(transcript, 20))
	if rep != nil {
		fmt.Printf("REPRODUCED on the current tree: input %v\n  observed: %v\n  expected: %v\n", rep["input"], rep["observed"], rep["expected"])
		os.Exit(1)
	}
	fmt.Println("not reproduced on the current tree")
	os.Exit(0)
}
