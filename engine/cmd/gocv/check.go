package main

func cmdCheck(args []string) {}
