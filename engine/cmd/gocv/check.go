package main

import (
	"sync"
	"crypto/sha256"
	"encoding/json"
	"flag"
	"fmt"
	"os"
	"path/filepath"
	"regexp"
	"sort"
	"strconv"
	"strings"
	"time"

	"golang.org/x/tools/go/ssa"
)

type PropFunc struct {
	Key    string   `json:"key"`
	Kinds  []string `json:"kinds,omitempty"`  // obligation kinds to count (default all)
	Labels []string `json:"labels,omitempty"` // substrings an obligation name must contain (any)
	Exclude []string `json:"exclude,omitempty"` // substrings of obligation names NOT claimed here (reported as assumed)
	Note   string   `json:"note,omitempty"`
}

type PropSpec struct {
	// StandIns: driver files (under replay_drivers/) to run as bounded stand-ins in
	// the QUICK tier too, for functions this property uses through assumed contracts
	StandIns        []string   `json:"standins,omitempty"`
	// Scans: repository-wide syntactic scans that belong to this property
	// ("errorf-single-w")
	Scans           []string   `json:"scans,omitempty"`
	ID              string     `json:"id"`
	Packages        []string   `json:"packages"`
	Preludes        []string   `json:"preludes"`
	Lemmas          []string   `json:"lemmas"`
	Functions       []PropFunc `json:"functions"`
	Level           string     `json:"level"`
	TimeoutQuick    int        `json:"timeout_quick"`
	TimeoutThorough int        `json:"timeout_thorough"`
	Assumptions     []string   `json:"assumptions"`
	Residual        []string   `json:"residual"`
	Explanation     string     `json:"explanation"`
	Extra           []string   `json:"extra_cmds"` // additional bounded stand-ins, run by the wrapper script
}

type KnownFinding struct {
	Property   string `json:"property"`
	Obligation string `json:"obligation"` // prefix of the obligation name
	Site       string `json:"site"`
	What       string `json:"what"`
	Status     string `json:"status"` // open | fixed
	Commit     string `json:"commit,omitempty"`
}

type failure struct {
	Obl      *Obligation
	Gen      *Gen
	Reason   string // for tool-level failures (missing targets)
	Name     string
	Replay   string
	Confirmed bool
	Known    *KnownFinding
}

var retSuffix = regexp.MustCompile(`(:ret\d+|:b\d+|~\d+)+$`)

func stableName(n string) string { return retSuffix.ReplaceAllString(n, "") }

func cmdCheck(args []string) {
	fs := flag.NewFlagSet("check", flag.ExitOnError)
	fs.Parse(args)
	if fs.NArg() < 1 {
		fmt.Fprintln(os.Stderr, "usage: gocv check <PROPERTY> [quick|thorough]")
		os.Exit(2)
	}
	prop := fs.Arg(0)
	tier := "quick"
	if fs.NArg() > 1 {
		tier = fs.Arg(1)
	}
	if t := os.Getenv("VERIF_TIER"); t != "" && fs.NArg() < 2 {
		tier = t
	}
	seed, _ := strconv.Atoi(os.Getenv("VERIF_SEED"))
	verifDir := envOr("VERIF_DIR", "/verif")
	repo := envOr("VERIF_REPO", "/repo")
	start := time.Now()

	var ps PropSpec
	b, err := os.ReadFile(filepath.Join(verifDir, "props", prop+".json"))
	if err != nil {
		fmt.Fprintln(os.Stderr, "gocv:", err)
		os.Exit(2)
	}
	if err := json.Unmarshal(b, &ps); err != nil {
		fmt.Fprintln(os.Stderr, "gocv: props file:", err)
		os.Exit(2)
	}
	timeout := ps.TimeoutQuick
	if timeout == 0 {
		timeout = 30
	}
	if tier == "thorough" {
		timeout = ps.TimeoutThorough
		if timeout == 0 {
			timeout = 120
		}
	}
	// VERIF_SCRATCH_OUT: selftests on a scratch copy of the repository write their
	// queries, replay files and evidence there, never over the real ones
	outRoot, evDir := filepath.Join(verifDir, "out"), filepath.Join(verifDir, "evidence")
	if sdir := os.Getenv("VERIF_SCRATCH_OUT"); sdir != "" {
		outRoot, evDir = filepath.Join(sdir, "out"), filepath.Join(sdir, "evidence")
	}
	outDir := filepath.Join(outRoot, prop)
	os.RemoveAll(outDir)
	os.MkdirAll(outDir, 0o755)
	replayDir := filepath.Join(outRoot, "replay", prop)
	os.RemoveAll(replayDir)
	os.MkdirAll(replayDir, 0o755)

	// Every package is loaded and analysed ON ITS OWN (functions of other /repo
	// packages are then callees without a body: used through their contracts, or
	// under the shallow-write assumption).  This keeps a function's verification
	// conditions independent of which other packages a property happens to list.
	phaseStart := time.Now()
	phase := func(name string) {
		if os.Getenv("VERIF_TIMING") != "" {
			fmt.Fprintf(os.Stderr, "phase %-10s %.1fs\n", name, time.Since(phaseStart).Seconds())
		}
		phaseStart = time.Now()
	}
	engines := map[string]*Engine{}
	var engList []*Engine
	{
		// the packages are independent of one another: loaded concurrently
		loaded := make([]*Engine, len(ps.Packages))
		errs := make([]error, len(ps.Packages))
		var lwg sync.WaitGroup
		sem := make(chan struct{}, 6)
		for i, pat := range ps.Packages {
			lwg.Add(1)
			go func(i int, pat string) {
				defer lwg.Done()
				sem <- struct{}{}
				defer func() { <-sem }()
				pe := NewEngine(repo, verifDir)
				errs[i] = pe.Load([]string{pat})
				loaded[i] = pe
			}(i, pat)
		}
		lwg.Wait()
		for i, pe := range loaded {
			if errs[i] != nil {
				// the tree does not build (or a contract file does not parse): a broken
				// check, not a verdict about the property
				fmt.Fprintln(os.Stderr, "gocv: load failed:", errs[i])
				os.Exit(2)
			}
			for _, p := range pe.pkgs {
				engines[p.PkgPath] = pe
			}
			engList = append(engList, pe)
		}
	}
	phase("load")
	if len(engList) == 0 {
		fmt.Fprintln(os.Stderr, "gocv: property lists no packages")
		os.Exit(2)
	}
	e := engList[0]
	// preludes
	var vcPre, recPre string
	lemmaDefined := map[string]bool{}
	// every spec prelude is visible to every property (contracts of callees from
	// other properties may use their vocabulary); common.smt2 first
	// lemmas whose proof blocks are part of this run
	lemmaInRun := map[string]bool{}
	autoUsed := map[string]bool{}
	for _, lf := range ps.Lemmas {
		if b, err := os.ReadFile(filepath.Join(verifDir, lf)); err == nil {
			for _, lp := range ParseLemmaFile(string(b)) {
				lemmaInRun[lp.Name] = true
			}
		}
	}
	allPre := []string{"spec/common.smt2"}
	if ms, _ := filepath.Glob(filepath.Join(verifDir, "spec", "*.smt2")); ms != nil {
		sort.Strings(ms)
		for _, m := range ms {
			rel, _ := filepath.Rel(verifDir, m)
			if strings.HasSuffix(m, ".lemmas.smt2") || rel == "spec/common.smt2" {
				continue
			}
			allPre = append(allPre, rel)
		}
	}
	for _, f := range allPre {
		b, err := os.ReadFile(filepath.Join(verifDir, f))
		if err != nil {
			fmt.Fprintln(os.Stderr, "gocv:", err)
			os.Exit(2)
		}
		pl, err := BuildPrelude(string(b))
		if err != nil {
			fmt.Fprintln(os.Stderr, "gocv: prelude", f, err)
			os.Exit(2)
		}
		vcPre += pl.VCText + "\n"
		recPre += pl.RecText + "\n"
		// an automatically instantiated lemma is an axiom of the VCs only if this
		// very run proves it (its proof blocks are in one of the property's lemma files)
		for _, name := range pl.Autos {
			if lemmaInRun[name] {
				if !autoUsed[name] {
					vcPre += pl.AutoAx[name]
				}
				autoUsed[name] = true
			}
		}
		for l := range pl.Lemmas {
			lemmaDefined[l] = true
		}
	}

	var fails []*failure
	var notClaimed []string
	var gens []*Gen
	var funcsEv []map[string]any
	selected := map[*Obligation]bool{}

	// lemma proofs
	lemmaGen := &Gen{fnName: "lemmas"}
	lemmaProved := map[string]bool{}
	lemmaParts := map[string][]*Obligation{}
	for _, lf := range ps.Lemmas {
		b, err := os.ReadFile(filepath.Join(verifDir, lf))
		if err != nil {
			fmt.Fprintln(os.Stderr, "gocv:", err)
			os.Exit(2)
		}
		for _, lp := range ParseLemmaFile(string(b)) {
			o := &Obligation{Name: "lemma#" + lp.Name + ":" + lp.Part, Kind: "lemma", Fn: "lemmas", Src: "lemma " + lp.Name + " " + lp.Part + " (" + lf + ")"}
			o.Formula = lp.Text
			lemmaGen.obls = append(lemmaGen.obls, o)
			lemmaParts[lp.Name] = append(lemmaParts[lp.Name], o)
		}
	}

	for _, pf := range ps.Functions {
		con, ok := e.contracts[pf.Key]
		if !ok {
			fails = append(fails, &failure{Name: pf.Key + "#contract", Reason: "no contract with key " + pf.Key + " (contract target missing)"})
			continue
		}
		e := engines[con.Pkg]
		if e == nil {
			fmt.Fprintf(os.Stderr, "gocv: props/%s.json lists %s but not its package %s\n", prop, pf.Key, con.Pkg)
			os.Exit(2)
		}
		con = e.contracts[pf.Key]
		if con.Assumed != "" {
			fmt.Fprintf(os.Stderr, "gocv: props/%s.json lists %s, whose contract is marked assumed (its body is not verified)\n", prop, pf.Key)
			os.Exit(2)
		}
		fn, err := e.FindFunc(con)
		if err != nil {
			fails = append(fails, &failure{Name: pf.Key + "#target", Reason: err.Error()})
			continue
		}
		g, err := e.VerifyFunc(fn, con)
		if err != nil {
			fails = append(fails, &failure{Name: pf.Key + "#vcgen", Reason: err.Error()})
			continue
		}
		gens = append(gens, g)
		n := 0
		skipped := map[string]int{}
		for _, o := range g.obls {
			unclaimed := false
			for _, u := range con.Unclaimed {
				if o.Kind != "cover" && strings.Contains(o.Name, u[0]) {
					unclaimed = true
					notClaimed = appendUnique(notClaimed, fmt.Sprintf("%s: obligations matching %q are not claimed by any property and are assumed past their program point, because %s", g.fnName, u[0], u[1]))
				}
			}
			if !unclaimed && oblSelected(o, pf) {
				selected[o] = true
				n++
			} else {
				skipped[o.Kind]++
			}
		}
		fe := funcEvidence(e, fn, con, g, n)
		if len(skipped) > 0 {
			// obligations generated for this function but not claimed by this
			// property: the symbolic execution continues past them as if they held
			fe["not_claimed_here_assumed"] = skipped
			var ks []string
			for _, k := range sortedKeys(skipped) {
				ks = append(ks, fmt.Sprintf("%d %s", skipped[k], k))
			}
			notClaimed = append(notClaimed, fmt.Sprintf("%s: %s obligations are generated but not claimed by this property (assumed to hold past their program point; see the properties that list this function with those kinds)", g.fnName, strings.Join(ks, ", ")))
		}
		funcsEv = append(funcsEv, fe)
	}

	// interface contracts that restate a concrete method's contract: every labelled
	// ensures clause must exist, under the same label, on the concrete contract, and
	// that contract must be verified in this very run
	verifiedKeys := map[string]bool{}
	for _, pf := range ps.Functions {
		verifiedKeys[pf.Key] = true
	}
	var links []string
	for _, pe := range engList {
		for _, key := range sortedKeys(pe.ifaceCons) {
			ic := pe.ifaceCons[key]
			if ic.Refines == "" || engines[ic.Pkg] != pe {
				continue
			}
			used := false
			for _, g := range gens {
				for _, a := range g.assumptions {
					if a == "interface contract: "+ic.FullKey() {
						used = true
					}
				}
			}
			if !used {
				continue
			}
			tc, ok := pe.contracts[ic.Refines]
			if !ok || tc.Trusted {
				fails = append(fails, &failure{Name: ic.FullKey() + "#refines", Reason: "interface contract refines " + ic.Refines + ", which has no (untrusted) contract"})
				continue
			}
			if !verifiedKeys[ic.Refines] {
				fmt.Fprintf(os.Stderr, "gocv: props/%s.json uses interface contract %s but does not verify %s, which it restates\n", prop, ic.FullKey(), ic.Refines)
				os.Exit(2)
			}
			have := map[string]bool{}
			for _, cl := range tc.Ensures {
				have[cl.Label] = true
			}
			var labels []string
			for _, cl := range ic.Ensures {
				if cl.Label == "" || !have[cl.Label] {
					fmt.Fprintf(os.Stderr, "gocv: interface contract %s: clause %q has no counterpart with the same label on %s\n", ic.FullKey(), cl.Src, ic.Refines)
					os.Exit(2)
				}
				labels = append(labels, cl.Label)
			}
			if ic.HasMod && !tc.HasMod {
				fmt.Fprintf(os.Stderr, "gocv: interface contract %s has a modifies clause, %s has none\n", ic.FullKey(), ic.Refines)
				os.Exit(2)
			}
			links = append(links, fmt.Sprintf("interface contract %s is taken to describe its implementation %s: the clauses [%s] and the frame are proved of that method in this run; that the two texts say the same thing (renaming the receiver's instance) is reviewed, not machine-checked", ic.FullKey(), ic.Refines, strings.Join(labels, ", ")))
		}
	}

	// ownership declarations of the loaded packages (static scan, no solver)
	var ownsChecked, ownsBad []string
	for _, pe := range engList {
		c, b := pe.OwnershipViolations()
		ownsChecked = append(ownsChecked, c...)
		ownsBad = append(ownsBad, b...)
	}
	for _, b := range ownsBad {
		fails = append(fails, &failure{Name: "owns#" + sanitize(b), Reason: b})
	}
	// repository-wide syntactic scans
	var scansEv []map[string]any
	for _, sc := range ps.Scans {
		switch sc {
		case "errorf-single-w":
			n, bad := scanErrorfSingleW(repo)
			scansEv = append(scansEv, map[string]any{"scan": sc, "sites_checked": n, "violations": len(bad),
				"what": "every cerrors.Errorf (= xerrors.Errorf) format literal under pkg/ and cmd/ has at most one %w verb"})
			for _, b := range bad {
				site := b[:strings.Index(b, ": ")]
				fails = append(fails, &failure{Name: "errorf#" + site, Reason: b})
			}
		default:
			fmt.Fprintf(os.Stderr, "gocv: props/%s.json names unknown scan %q\n", prop, sc)
			os.Exit(2)
		}
	}
	// discharge: lemma blocks and function obligations
	phase("load+gen")
	solveLemmas(lemmaGen, recPre, filepath.Join(outDir, "lemmas"), timeout)
	phase("lemmas")
	// only solve selected obligations (plus covers)
	for _, g := range gens {
		var keep []*Obligation
		for _, o := range g.obls {
			if selected[o] {
				keep = append(keep, o)
			}
		}
		g.obls = keep
	}
	solveAll(gens, vcPre, outDir, timeout, 14)
	phase("solve")

	// lemma status
	for name, parts := range lemmaParts {
		ok := true
		for _, o := range parts {
			if o.Result == nil || o.Result.Status != "unsat" {
				ok = false
			}
		}
		lemmaProved[name] = ok
	}

	for _, name := range sortedKeys(autoUsed) {
		if !lemmaProved[name] {
			fails = append(fails, &failure{Name: "lemmas#auto:" + name, Reason: "automatically instantiated lemma " + name + " has no successful proof in this run"})
		}
	}
	known := loadKnownFindings(filepath.Join(verifDir, "known_findings.json"))
	total, discharged := len(ownsChecked)+len(ownsBad), len(ownsChecked)
	var perObl []map[string]any
	solverTime := 0.0
	bySolver := map[string]int{}
	var samples []any
	addObl := func(g *Gen, o *Obligation) {
		total++
		st := "none"
		if o.Result != nil {
			st = o.Result.Status
			solverTime += o.Result.Time
		}
		ok := st == "unsat"
		if o.Must == "sat" {
			ok = st != "unsat" && st != "error"
		}
		if ok {
			discharged++
			if o.Result != nil {
				bySolver[o.Result.Solver]++
			}
		} else {
			fails = append(fails, &failure{Obl: o, Gen: g, Name: o.Name})
		}
		rec := map[string]any{"name": o.Name, "kind": o.Kind, "status": st, "clause": o.Src}
		if o.Result != nil {
			rec["solver"] = o.Result.Solver
			rec["time_s"] = round3(o.Result.Time)
		}
		if o.Pos.IsValid() {
			rec["at"] = fmt.Sprintf("%s:%d", shortFile(o.Pos.Filename), o.Pos.Line)
		}
		perObl = append(perObl, rec)
	}
	for _, o := range lemmaGen.obls {
		addObl(lemmaGen, o)
	}
	// hints may only use lemmas that were proved in this run
	for _, g := range gens {
		for l := range g.lemmasUsed {
			if !lemmaDefined[l] {
				fails = append(fails, &failure{Name: g.fnName + "#hint:" + l, Reason: "hint uses undefined lemma " + l})
			} else if !lemmaProved[l] {
				fails = append(fails, &failure{Name: g.fnName + "#hint:" + l, Reason: "hint uses lemma " + l + " that has no successful proof in this run"})
			}
		}
		for _, o := range g.obls {
			addObl(g, o)
		}
	}
	// samples: three obligations written out
	for _, g := range gens {
		for _, o := range g.obls {
			if len(samples) < 3 && o.Kind != "cover" && o.Result != nil {
				samples = append(samples, map[string]any{
					"obligation": o.Name, "clause": o.Src, "guard": trunc(o.Guard, 200), "goal": trunc(o.Formula, 600),
					"smt_file": o.Result.File, "status": o.Result.Status, "solver": o.Result.Solver,
				})
			}
		}
	}

	// a solver error (malformed query) is a broken check, not a verdict
	for _, f := range fails {
		if f.Obl != nil && f.Obl.Result != nil && f.Obl.Result.Status == "error" {
			fmt.Fprintf(os.Stderr, "gocv: solver error on %s: %s\n", f.Name, firstLines(f.Obl.Result.Output, 3))
			os.Exit(2)
		}
	}
	// classify failures
	violations := 0
	var knownHit []string
	var lines []string
	for _, f := range fails {
		for i := range known {
			k := &known[i]
			// an open finding is identified by its obligation; the same function may be
			// verified by several properties' checks (anchor files overlap), each of which
			// reports it as known for its own property id
			if k.Status == "open" && strings.HasPrefix(stableName(f.Name), k.Obligation) {
				f.Known = k
			}
		}
		if f.Known != nil {
			msg := fmt.Sprintf("KNOWN-FINDING: property=%s %s %s", prop, f.Known.Obligation, f.Known.What)
			if !contains(knownHit, msg) {
				knownHit = append(knownHit, msg)
				lines = append(lines, msg)
			}
			continue
		}
		violations++
		path := writeReplay(replayDir, prop, f, e)
		line := fmt.Sprintf("VIOLATION property=%s replay=%s", prop, path)
		if !f.Confirmed {
			line += " no-failing-input-found"
		}
		lines = append(lines, line)
	}

	// thorough tier: bounded stand-ins (input search on the real code with an
	// independent oracle) for the property's functions that have a driver.  Labelled
	// bounded; never counted as discharged; a failing input found is a violation.
	var standIns []map[string]any
	if tier == "thorough" || len(ps.StandIns) > 0 {
		var fnNames []string
		for _, g := range gens {
			fnNames = append(fnNames, g.fnName)
		}
		budget, only := 30, []string(nil)
		if tier != "thorough" {
			budget, only = 4, ps.StandIns
		}
		res, found := boundedStandIns(repo, verifDir, fnNames, seed, budget, only)
		standIns = res
		for _, rep := range found {
			name := fmt.Sprintf("%v#bounded:%v", rep["function"], rep["driver"])
			path := filepath.Join(replayDir, sanitize(name)+".json")
			os.MkdirAll(replayDir, 0o755)
			rec := map[string]any{"property": prop, "obligation": name, "kind": "bounded-stand-in", "clause": rep["clause"],
				"replay": map[string]any{"attempted": true, "found": true, "driver": rep["driver"], "failing_input": rep["input"], "input_json": rep["input_json"], "observed": rep["observed"], "expected": rep["expected"]}}
			b, _ := json.MarshalIndent(rec, "", " ")
			os.WriteFile(path, b, 0o644)
			violations++
			lines = append(lines, fmt.Sprintf("VIOLATION property=%s replay=%s", prop, path))
		}
	}

	// evidence
	var assumptions []string
	assumptions = append(assumptions, ps.Assumptions...)
	assumptions = append(assumptions, links...)
	assumptions = append(assumptions, notClaimed...)
	absSet := map[string]bool{}
	inferredSet := map[string]bool{}
	provedElsewhere := propsVerifying(verifDir)
	for _, g := range gens {
		for _, a := range g.assumptions {
			if k, ok := strings.CutPrefix(a, "callee contract: "); ok {
				// a callee is used through its contract only: say where that contract is proved
				switch {
				case verifiedKeys[k]:
					continue // proved in this very run
				case len(provedElsewhere[k]) > 0:
					a = "callee contract used, proved by the check of " + strings.Join(provedElsewhere[k], ",") + " (not re-proved in this run): " + k
				default:
					a = "ASSUMED callee contract (its body is not verified by any check): " + k
					if ac, ok := e.contracts[k]; ok && ac.Assumed != "" {
						a += " - " + ac.Assumed
					}
				}
			}
			assumptions = appendUnique(assumptions, a)
		}
		for _, a := range g.abstracted {
			absSet[g.fnName+": "+a] = true
		}
		for _, a := range g.inferred {
			inferredSet[a] = true
		}
	}
	assumptions = append(assumptions,
		"loop facts added by the generator without a proof obligation (inductive by construction: counters in lock step, niter, and prefix facts from branch conditions over memory the loop does not write; listed under coverage.inferred_loop_facts)",
		"machine integers are treated as mathematical integers (no overflow) except where a conversion narrows to an unsigned type",
		"functions without a body in the loaded packages write at most shallowly through pointer/slice arguments; effect-free list in spec/effectfree.txt",
		"no reflect/unsafe writes to unexported fields from outside their package",
		"goroutine scheduling, channels and the memory model are outside the logic; Go/Send/Select/receive are havocked (listed under abstracted)")
	for _, r := range ps.Residual {
		assumptions = append(assumptions, "NOT DECIDED (residual): "+r)
	}
	level := ps.Level
	if level == "" {
		level = "proof"
	}
	// obligations that fail because of a listed, open known finding are not part of
	// what this run claims to have proved: they are reported on their own
	knownFailing := 0
	for _, f := range fails {
		if f.Known != nil && f.Obl != nil {
			knownFailing++
		}
	}
	cov := map[string]any{
		"obligations":  total - knownFailing,
		"discharged":   discharged,
		"obligations_failing_under_known_findings": knownFailing,
		"checker_cmd":  fmt.Sprintf("gocv check %s %s (VCs over go/ssa of /repo working tree; solvers raced: z3-new 5.1.0, z3 4.8.12, cvc5 1.0; timeout %ds)", prop, tier, timeout),
		"trusted_base": []string{"go/ssa + go/types (x/tools v0.47.0) faithfully represent the compiled code", "gocv VC generator (mitigated by must-fail selftests and cover queries)", "SMT solvers z3-new/z3/cvc5 (an unsat from any one is accepted)", "trusted contracts in /verif/spec/*.vc and spec/effectfree.txt"},
		"functions":    funcsEv,
		"per_obligation": perObl,
		"discharged_by_solver": bySolver,
		"solver_time_s": round3(solverTime),
		"samples":      samples,
		"abstracted":   sortedKeys(absSet),
		"inferred_loop_facts": sortedKeys(inferredSet),
		"known_findings_hit": knownHit,
		"explanation":  ps.Explanation,
		"residual_not_decided": ps.Residual,
		"contract_files": e.contractFiles,
		"bounded_stand_ins": standIns,
		"scans": scansEv,
		"ownership_scans": ownsChecked,
	}
	ev := map[string]any{
		"property_id": prop, "tier": tier, "seed": seed, "level": level,
		"coverage": cov, "assumptions": assumptions,
		"wall_s": round3(time.Since(start).Seconds()), "violations": violations,
	}
	os.MkdirAll(evDir, 0o755)
	eb, _ := json.MarshalIndent(ev, "", " ")
	os.WriteFile(filepath.Join(evDir, prop+".json"), eb, 0o644)

	fmt.Printf("gocv %s %s: %d obligations, %d discharged, %d known findings, %d violations, %.1fs\n", prop, tier, total, discharged, len(knownHit), violations, time.Since(start).Seconds())
	for _, l := range lines {
		fmt.Println(l)
	}
	if total == 0 {
		fmt.Fprintln(os.Stderr, "gocv: no obligations generated (vacuous check)")
		os.Exit(2)
	}
	if violations > 0 {
		os.Exit(1)
	}
}

func contains(l []string, s string) bool {
	for _, x := range l {
		if x == s {
			return true
		}
	}
	return false
}

func trunc(s string, n int) string {
	if len(s) > n {
		return s[:n] + "…"
	}
	return s
}

func round3(f float64) float64 {
	return float64(int(f*1000+0.5)) / 1000
}

func oblSelected(o *Obligation, pf PropFunc) bool {
	if o.Kind == "cover" {
		return true
	}
	if len(pf.Kinds) > 0 {
		ok := false
		for _, k := range pf.Kinds {
			if k == "*" || k == o.Kind || (k == "safety" && isSafetyKind(o.Kind)) {
				ok = true
			}
		}
		if !ok {
			return false
		}
	}
	for _, x := range pf.Exclude {
		if strings.Contains(o.Name, x) {
			return false
		}
	}
	if len(pf.Labels) > 0 {
		ok := false
		for _, l := range pf.Labels {
			if strings.Contains(o.Name, l) {
				ok = true
			}
		}
		if !ok {
			return false
		}
	}
	return true
}

func isSafetyKind(k string) bool {
	switch k {
	case "bounds", "nil", "div", "assert", "panic", "mapwrite", "makeslice", "nilcall":
		return true
	}
	return false
}

func funcEvidence(e *Engine, fn *ssa.Function, con *Contract, g *Gen, nObl int) map[string]any {
	pos := e.fset.Position(fn.Pos())
	m := map[string]any{
		"function": g.fnName, "file": shortFile(pos.Filename), "line": pos.Line,
		"obligations": nObl, "abstracted": g.abstracted,
		"contract": fmt.Sprintf("%s:%d", shortFile(con.File), con.Line),
	}
	n := 0
	for _, b := range fn.Blocks {
		n += len(b.Instrs)
	}
	m["ssa_instructions"] = n
	// hash of the function's source text
	if syn := fn.Syntax(); syn != nil {
		p0, p1 := e.fset.Position(syn.Pos()), e.fset.Position(syn.End())
		if src, err := os.ReadFile(p0.Filename); err == nil && p1.Offset <= len(src) {
			h := sha256.Sum256(src[p0.Offset:p1.Offset])
			m["source_sha256"] = fmt.Sprintf("%x", h[:8])
			m["span"] = fmt.Sprintf("%d-%d", p0.Line, p1.Line)
		}
	}
	return m
}

func loadKnownFindings(path string) []KnownFinding {
	b, err := os.ReadFile(path)
	if err != nil {
		return nil
	}
	var f struct {
		Findings []KnownFinding `json:"findings"`
	}
	if err := json.Unmarshal(b, &f); err != nil {
		fmt.Fprintln(os.Stderr, "gocv: known_findings.json:", err)
		os.Exit(2)
	}
	return f.Findings
}

// solveLemmas discharges lemma proof blocks (Formula holds the block text).
func solveLemmas(lg *Gen, recPrelude, outDir string, timeoutS int) {
	os.MkdirAll(outDir, 0o755)
	type res struct {
		o *Obligation
		r SolveResult
	}
	ch := make(chan res)
	for _, o := range lg.obls {
		go func(o *Obligation) {
			file := filepath.Join(outDir, sanitize(o.Name)+".smt2")
			os.WriteFile(file, []byte("(set-logic ALL)\n"+preludeCore+preludeHeap+recPrelude+"\n"+o.Formula), 0o644)
			ch <- res{o, discharge(file, timeoutS)}
		}(o)
	}
	for range lg.obls {
		x := <-ch
		r := x.r
		x.o.Result = &r
	}
	for _, o := range lg.obls {
		o.Formula = "(lemma proof block)"
	}
	sort.Slice(lg.obls, func(i, j int) bool { return lg.obls[i].Name < lg.obls[j].Name })
}

// writeReplay writes the replay file for a failed obligation and tries to
// confirm the solver's counterexample on the real code.
func writeReplay(dir, prop string, f *failure, e *Engine) string {
	path := filepath.Join(dir, sanitize(f.Name)+".json")
	rec := map[string]any{"property": prop, "obligation": f.Name}
	if f.Reason != "" {
		rec["reason"] = f.Reason
		rec["verdict"] = "the property can no longer be shown: " + f.Reason
	}
	if o := f.Obl; o != nil {
		rec["kind"] = o.Kind
		rec["clause"] = o.Src
		if o.Pos.IsValid() {
			rec["at"] = fmt.Sprintf("%s:%d", shortFile(o.Pos.Filename), o.Pos.Line)
		}
		if o.Result != nil {
			rec["solver"] = o.Result.Solver
			rec["solver_status"] = o.Result.Status
			rec["solver_output"] = trunc(o.Result.Output, 4000)
			rec["smt_file"] = o.Result.File
			if o.Result.Model != "" {
				rec["model"] = trunc(o.Result.Model, 20000)
			}
		}
		if f.Gen != nil && f.Gen.fn != nil && o.Kind != "cover" {
			// no solver model to replay (see replay.go): search for a concrete failing
			// input with the function's driver, if it has one
			rp := tryReplay(e, f, rec)
			f.Confirmed = rp
		}
		if !f.Confirmed {
			if _, ok := rec["replay"]; !ok {
				rec["replay"] = map[string]any{"attempted": false, "why": "the solver gave no counterexample (" + statusWhy(o) + ") and this function has no input-search driver under /verif/replay_drivers"}
			}
		}
	}
	if f.Obl == nil && (strings.HasSuffix(f.Name, "#vcgen") || strings.HasSuffix(f.Name, "#target")) {
		// the contract no longer fits the function (no VC could be generated): the
		// function's driver, if it has one, can still say whether the real code
		// breaks its clause on a concrete input
		f.Confirmed = tryReplay(e, f, rec)
	}
	b, _ := json.MarshalIndent(rec, "", " ")
	os.WriteFile(path, b, 0o644)
	return path
}

func statusWhy(o *Obligation) string {
	if o.Result == nil {
		return "not solved"
	}
	switch o.Result.Status {
	case "sat":
		return "model found but no replay driver for this function"
	case "unknown", "timeout":
		return "solver answered " + o.Result.Status + "; quantified goals give no model"
	}
	return o.Result.Status
}


// propsVerifying: for every contract key, the properties whose check verifies it.
func propsVerifying(verifDir string) map[string][]string {
	out := map[string][]string{}
	files, _ := filepath.Glob(filepath.Join(verifDir, "props", "*.json"))
	sort.Strings(files)
	for _, f := range files {
		b, err := os.ReadFile(f)
		if err != nil {
			continue
		}
		var ps struct {
			ID        string `json:"id"`
			Functions []struct {
				Key string `json:"key"`
			} `json:"functions"`
		}
		if json.Unmarshal(b, &ps) != nil {
			continue
		}
		for _, fn := range ps.Functions {
			out[fn.Key] = append(out[fn.Key], ps.ID)
		}
	}
	return out
}
