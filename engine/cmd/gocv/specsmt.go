package main

// Translation of spec expressions to SMT terms against a symbolic state.

import (
	"fmt"
	"golang.org/x/tools/go/ssa"
	"go/constant"
	"go/types"
	"strconv"
	"strings"
)

type SpecCtx struct {
	g         *Gen
	env       map[string]*Val
	cur, old  *State
	qvars     map[string]bool
	brkBefore string // for fresh(): allocation watermark before the call
	callee    bool   // evaluating a callee's contract at a call site: the caller's locals are not visible
	inLet     map[string]bool // let-names being expanded (no recursion)
}

func (g *Gen) specCtx(env map[string]*Val, cur, old *State) *SpecCtx {
	return &SpecCtx{g: g, env: env, cur: cur, old: old, qvars: map[string]bool{}}
}

func (sc *SpecCtx) evalBool(e *SExpr) (string, error) {
	v, err := sc.eval(e)
	if err != nil {
		return "", err
	}
	return v.T, nil
}

var intType = types.Typ[types.Int]
var boolType = types.Typ[types.Bool]

func derefStruct(t types.Type) (types.Type, bool) {
	if t == nil {
		return nil, false
	}
	if p, ok := t.Underlying().(*types.Pointer); ok {
		if isStruct(p.Elem()) {
			return p.Elem(), true
		}
	}
	return nil, false
}

func (sc *SpecCtx) eval(e *SExpr) (*Val, error) {
	g := sc.g
	switch e.Kind {
	case SNum:
		n, err := strconv.ParseInt(e.Name, 0, 64)
		if err != nil {
			return nil, err
		}
		return &Val{T: intLit(n), Ty: intType}, nil
	case SBool:
		return &Val{T: e.Name, Ty: boolType}, nil
	case SNil:
		return &Val{T: "0", Ty: types.Typ[types.UntypedNil]}, nil
	case SStr:
		return &Val{T: g.strConst(e.Name), Ty: types.Typ[types.String]}, nil
	case SIdent:
		if strings.HasSuffix(e.Name, "$1") && !sc.callee {
			// name$1 also denotes the only variable of that name
			if base := strings.TrimSuffix(e.Name, "$1"); !g.localAmbig[base] {
				if _, ok := g.localTypes["$local:"+base]; ok {
					cp := *e
					cp.Name = base
					return sc.eval(&cp)
				}
			}
		}
		if sc.qvars[e.Name] {
			return &Val{T: e.Name, Ty: intType}, nil
		}
		if v, ok := sc.env[e.Name]; ok {
			return v, nil
		}
		if !sc.callee && g.con != nil {
			// //verif:let name = expr: a contract-chosen name for a value identified by
			// what it IS (a call's result or argument, ...) instead of by the source
			// name of a local variable
			if le, ok := g.con.Lets[e.Name]; ok && !sc.inLet[e.Name] {
				sub := *sc
				sub.inLet = map[string]bool{e.Name: true}
				for k := range sc.inLet {
					sub.inLet[k] = true
				}
				return sub.eval(le)
			}
		}
		if sc.callee {
			if g.eng.preludeSyms[e.Name] {
				return &Val{T: e.Name}, nil
			}
			if g.fn.Pkg != nil {
				if c, ok := g.fn.Pkg.Pkg.Scope().Lookup(e.Name).(*types.Const); ok {
					return g.constToVal(c)
				}
			}
			// constants of the callee's package (contract written in its package)
			if cv := g.eng.constByName(e.Name); cv != nil {
				return g.constToVal(cv)
			}
			return nil, fmt.Errorf("identifier %q is not visible at this call site", e.Name)
		}
		if g.localAmbig[e.Name] {
			return nil, fmt.Errorf("local variable name %q is ambiguous in this function (declared more than once)", e.Name)
		}
		if p, ok := g.localAddr[e.Name]; ok {
			elem := p.Ty.Underlying().(*types.Pointer).Elem()
			g.noteLocalNamed(e.Name)
			return &Val{T: g.load(sc.cur, p, elem), Ty: elem}, nil
		}
		if t, ok := g.localTypes["$local:"+e.Name]; ok {
			if _, isParam := sc.env[e.Name]; !isParam {
				g.noteLocalNamed(e.Name)
				if _, has := sc.cur.ghost["$local:"+e.Name]; has {
					return &Val{T: g.ghostTerm(sc.cur, "$local:"+e.Name), Ty: t}, nil
				}
				// no value on this path (not yet assigned): an arbitrary value
				u := g.havocVal(t, "undef."+e.Name)
				return u, nil
			}
		}
		if gs, ok := g.ghostSorts["$user:"+e.Name]; ok {
			_ = gs
			return &Val{T: g.ghostTerm(sc.cur, "$user:"+e.Name)}, nil
		}
		// package-level constant of the function's package
		if g.fn.Pkg != nil {
			if obj := g.fn.Pkg.Pkg.Scope().Lookup(e.Name); obj != nil {
				if c, ok := obj.(*types.Const); ok {
					return g.constToVal(c)
				}
				if _, ok := obj.(*types.Var); ok {
					// package-level variable: read its cell
					if gl, ok := g.fn.Pkg.Members[e.Name].(*ssa.Global); ok {
						gv := g.globalVal(gl)
						elem := gl.Type().(*types.Pointer).Elem()
						if isStruct(elem) {
							return &Val{T: gv.T, Ty: gl.Type()}, nil
						}
						return &Val{T: g.load(sc.cur, gv, elem), Ty: elem}, nil
					}
				}
			}
		}
		// a compiler-generated package variable (e.g. init$guard)
		if g.fn.Pkg != nil {
			if gl, ok := g.fn.Pkg.Members[e.Name].(*ssa.Global); ok {
				gv := g.globalVal(gl)
				elem := gl.Type().(*types.Pointer).Elem()
				if !isStruct(elem) {
					return &Val{T: g.load(sc.cur, gv, elem), Ty: elem}, nil
				}
			}
		}
		// raw SMT symbol (declared in a spec prelude)
		if g.eng.preludeSyms[e.Name] {
			return &Val{T: e.Name}, nil
		}
		if cv := g.eng.constByName(e.Name); cv != nil {
			return g.constToVal(cv)
		}
		return nil, fmt.Errorf("unknown identifier %q", e.Name)
	case SOld:
		sub := *sc
		sub.cur = sc.old
		v, err := sub.eval(e.X)
		if err != nil {
			return nil, err
		}
		if v.StructLoc {
			// a struct-typed location: its contents must be read in the OLD state
			st, _ := derefStruct(v.Ty)
			return &Val{T: g.loadStruct(sc.old, v.T, st), Ty: st}, nil
		}
		return v, nil
	case SUnary:
		x, err := sc.eval(e.X)
		if err != nil {
			return nil, err
		}
		if e.Op == "!" {
			return &Val{T: not(x.T), Ty: boolType}, nil
		}
		return &Val{T: sx("-", x.T), Ty: x.Ty}, nil
	case SBinary:
		return sc.evalBinary(e)
	case SField:
		x, err := sc.eval(e.X)
		if err != nil {
			return nil, err
		}
		return sc.field(x, e.Name)
	case SIndex:
		x, err := sc.eval(e.X)
		if err != nil {
			return nil, err
		}
		i, err := sc.eval(e.Y)
		if err != nil {
			return nil, err
		}
		return sc.index(x, i)
	case SSlice:
		x, err := sc.eval(e.X)
		if err != nil {
			return nil, err
		}
		lo := "0"
		if e.Lo != nil {
			v, err := sc.eval(e.Lo)
			if err != nil {
				return nil, err
			}
			lo = v.T
		}
		hi := sx("sl-len", x.T)
		if e.Hi != nil {
			v, err := sc.eval(e.Hi)
			if err != nil {
				return nil, err
			}
			hi = v.T
		}
		return &Val{T: sx("mk-slice", sx("sl-base", x.T), sx("ix", sx("sl-off", x.T), lo), sx("-", hi, lo), sx("-", sx("sl-cap", x.T), lo)), Ty: x.Ty}, nil
	case SQuant:
		sub := *sc
		sub.qvars = map[string]bool{}
		for k := range sc.qvars {
			sub.qvars[k] = true
		}
		sub.qvars[e.Name] = true
		if e.Lo == nil {
			body, err := sub.eval(e.X)
			if err != nil {
				return nil, err
			}
			return &Val{T: fmt.Sprintf("(%s ((%s Int)) %s)", e.Op, e.Name, body.T), Ty: boolType}, nil
		}
		lo, err := sc.eval(e.Lo)
		if err != nil {
			return nil, err
		}
		hi, err := sc.eval(e.Hi)
		if err != nil {
			return nil, err
		}
		body, err := sub.eval(e.X)
		if err != nil {
			return nil, err
		}
		rng := and(sx("<=", lo.T, e.Name), sx("<", e.Name, hi.T))
		if e.Op == "forall" {
			return &Val{T: fmt.Sprintf("(forall ((%s Int)) %s)", e.Name, imp(rng, body.T)), Ty: boolType}, nil
		}
		return &Val{T: fmt.Sprintf("(exists ((%s Int)) %s)", e.Name, and(rng, body.T)), Ty: boolType}, nil
	case SCall:
		return sc.call(e)
	}
	return nil, fmt.Errorf("cannot evaluate %s", e)
}

func (g *Gen) constToVal(c *types.Const) (*Val, error) {
	v := c.Val()
	switch v.Kind() {
	case constant.Int:
		s := v.ExactString()
		if strings.HasPrefix(s, "-") {
			s = "(- " + s[1:] + ")"
		}
		return &Val{T: s, Ty: c.Type()}, nil
	case constant.Bool:
		if constant.BoolVal(v) {
			return &Val{T: "true", Ty: c.Type()}, nil
		}
		return &Val{T: "false", Ty: c.Type()}, nil
	case constant.String:
		return &Val{T: g.strConst(constant.StringVal(v)), Ty: c.Type()}, nil
	}
	return nil, fmt.Errorf("unsupported constant %s", c.Name())
}

func isSliceVal(v *Val) bool {
	if v.Ty == nil {
		return false
	}
	_, ok := v.Ty.Underlying().(*types.Slice)
	return ok
}

func (sc *SpecCtx) evalBinary(e *SExpr) (*Val, error) {
	x, err := sc.eval(e.X)
	if err != nil {
		return nil, err
	}
	y, err := sc.eval(e.Y)
	if err != nil {
		return nil, err
	}
	switch e.Op {
	case "&&":
		return &Val{T: and(x.T, y.T), Ty: boolType}, nil
	case "||":
		return &Val{T: or(x.T, y.T), Ty: boolType}, nil
	case "==>":
		return &Val{T: imp(x.T, y.T), Ty: boolType}, nil
	case "<==>":
		return &Val{T: eq(x.T, y.T), Ty: boolType}, nil
	case "==", "!=":
		// a struct-typed location compared with a struct value: compare contents
		loadIf := func(v *Val) *Val {
			if v.StructLoc {
				st, _ := derefStruct(v.Ty)
				return &Val{T: sc.g.loadStruct(sc.cur, v.T, st), Ty: st}
			}
			return v
		}
		if x.StructLoc || y.StructLoc {
			x, y = loadIf(x), loadIf(y)
		}
		var t string
		switch {
		case isSliceVal(x) && e.Y.Kind == SNil:
			t = eq(sx("sl-base", x.T), "0")
		case isSliceVal(y) && e.X.Kind == SNil:
			t = eq(sx("sl-base", y.T), "0")
		default:
			t = eq(x.T, y.T)
		}
		if e.Op == "!=" {
			t = not(t)
		}
		return &Val{T: t, Ty: boolType}, nil
	case "<", "<=", ">", ">=":
		return &Val{T: sx(e.Op, x.T, y.T), Ty: boolType}, nil
	case "+", "-", "*":
		return &Val{T: sx(e.Op, x.T, y.T), Ty: x.Ty}, nil
	case "/":
		return &Val{T: sx("go-div", x.T, y.T), Ty: x.Ty}, nil
	case "%":
		return &Val{T: sx("go-mod", x.T, y.T), Ty: x.Ty}, nil
	}
	return nil, fmt.Errorf("unknown operator %s", e.Op)
}

// field reads a field through a pointer to a struct, or selects from a struct value.
func (sc *SpecCtx) field(x *Val, name string) (*Val, error) {
	g := sc.g
	if x.Ty == nil {
		return nil, fmt.Errorf("field %s of untyped spec value %s", name, x.T)
	}
	if st, ok := derefStruct(x.Ty); ok {
		u := st.Underlying().(*types.Struct)
		idx, ft, path := findField(u, name)
		if idx < 0 {
			return nil, fmt.Errorf("type %s has no field %s", typeKey(st), name)
		}
		ref := x.T
		cur := st
		// walk embedded path
		for _, pi := range path {
			_, sub, pft := g.fieldOf(ref, cur, pi)
			if sub == "" {
				// embedded pointer: load it
				loc, _, _ := g.fieldOf(ref, cur, pi)
				ref = g.readLoc(sc.cur, loc)
				pe, _ := derefStruct(pft)
				cur = pe
			} else {
				ref = sub
				cur = pft
			}
		}
		loc, sub, _ := g.fieldOf(ref, cur, idx)
		if sub != "" && isStruct(ft) {
			return &Val{T: sub, Ty: types.NewPointer(ft), StructLoc: true}, nil
		}
		if sub != "" { // array field
			return &Val{T: g.readLoc(sc.cur, loc), Ty: ft, LV: nil}, nil
		}
		rv := &Val{T: g.readLoc(sc.cur, loc), Ty: ft}
		sc.heapWF(rv)
		return rv, nil
	}
	if u, ok := x.Ty.Underlying().(*types.Struct); ok {
		for i := 0; i < u.NumFields(); i++ {
			if u.Field(i).Name() == name {
				return &Val{T: sx(g.st.fieldSel(x.Ty, i), x.T), Ty: u.Field(i).Type()}, nil
			}
		}
		return nil, fmt.Errorf("type %s has no field %s", typeKey(x.Ty), name)
	}
	return nil, fmt.Errorf("field %s of non-struct %s", name, typeKey(x.Ty))
}

// findField finds a (possibly promoted) field; path lists embedded field indices to traverse.
func findField(u *types.Struct, name string) (int, types.Type, []int) {
	for i := 0; i < u.NumFields(); i++ {
		if u.Field(i).Name() == name {
			return i, u.Field(i).Type(), nil
		}
	}
	for i := 0; i < u.NumFields(); i++ {
		f := u.Field(i)
		if !f.Embedded() {
			continue
		}
		ft := f.Type()
		if p, ok := ft.Underlying().(*types.Pointer); ok {
			ft = p.Elem()
		}
		if su, ok := ft.Underlying().(*types.Struct); ok {
			if idx, t, path := findField(su, name); idx >= 0 {
				return idx, t, append([]int{i}, path...)
			}
		}
	}
	return -1, nil, nil
}

func (sc *SpecCtx) index(x, i *Val) (*Val, error) {
	g := sc.g
	if x.Ty == nil {
		return &Val{T: sel(x.T, i.T)}, nil
	}
	switch t := x.Ty.Underlying().(type) {
	case *types.Slice:
		at := sx("ix", sx("sl-off", x.T), i.T)
		if isStruct(t.Elem()) {
			return &Val{T: sx("elemref", sx("sl-base", x.T), at), Ty: types.NewPointer(t.Elem()), StructLoc: true}, nil
		}
		loc := &Loc{Comp: elemComp(t.Elem()), Ref: sx("sl-base", x.T), Idx: at, Ty: t.Elem()}
		return &Val{T: g.readLoc(sc.cur, loc), Ty: t.Elem()}, nil
	case *types.Array:
		return &Val{T: sel(x.T, i.T), Ty: t.Elem()}, nil
	case *types.Map:
		mc := g.mapComps(t)
		has := and(sx("distinct", x.T, "0"), sel(sel(g.heapTerm(sc.cur, mc.has), x.T), i.T))
		return &Val{T: ite(has, sel(sel(g.heapTerm(sc.cur, mc.val), x.T), i.T), g.st.zero(t.Elem())), Ty: t.Elem()}, nil
	}
	return nil, fmt.Errorf("cannot index %s", typeKey(x.Ty))
}

func (sc *SpecCtx) call(e *SExpr) (*Val, error) {
	g := sc.g
	argv := func(i int) (*Val, error) {
		if i >= len(e.Args) {
			return nil, fmt.Errorf("%s: missing argument %d", e.Name, i)
		}
		return sc.eval(e.Args[i])
	}
	switch e.Name {
	case "len":
		x, err := argv(0)
		if err != nil {
			return nil, err
		}
		if x.Ty == nil {
			return nil, fmt.Errorf("len of untyped value")
		}
		switch t := x.Ty.Underlying().(type) {
		case *types.Slice:
			return &Val{T: sx("sl-len", x.T), Ty: intType}, nil
		case *types.Basic:
			return &Val{T: sx("strlen", x.T), Ty: intType}, nil
		case *types.Map:
			mc := g.mapComps(t)
			return &Val{T: ite(eq(x.T, "0"), "0", sel(g.heapTerm(sc.cur, mc.length), x.T)), Ty: intType}, nil
		case *types.Array:
			return &Val{T: intLit(t.Len()), Ty: intType}, nil
		}
		return nil, fmt.Errorf("len of %s", typeKey(x.Ty))
	case "cap":
		x, err := argv(0)
		if err != nil {
			return nil, err
		}
		return &Val{T: sx("sl-cap", x.T), Ty: intType}, nil
	case "off":
		x, err := argv(0)
		if err != nil {
			return nil, err
		}
		return &Val{T: sx("sl-off", x.T), Ty: intType}, nil
	case "base":
		x, err := argv(0)
		if err != nil {
			return nil, err
		}
		return &Val{T: sx("sl-base", x.T), Ty: intType}, nil
	case "arr":
		// the backing array of a slice of scalars
		x, err := argv(0)
		if err != nil {
			return nil, err
		}
		sl, ok := x.Ty.Underlying().(*types.Slice)
		if !ok {
			return nil, fmt.Errorf("arr() of non-slice")
		}
		c := g.comp(elemComp(sl.Elem()), "(Array Int "+g.st.sortOf(sl.Elem())+")")
		return &Val{T: sel(g.heapTerm(sc.cur, c.Name), sx("sl-base", x.T))}, nil
	case "heapof":
		// heapof(s, "Field"): the heap component (an SMT array from element
		// references to values) that holds field Field of the elements of a slice
		// of structs; elements are addressed as elemref(base(s), ix(off(s), k))
		if len(e.Args) != 2 {
			return nil, fmt.Errorf("heapof(slice, \"Field\")")
		}
		x, err := argv(0)
		if err != nil {
			return nil, err
		}
		sl, ok := x.Ty.Underlying().(*types.Slice)
		if !ok || !isStruct(sl.Elem()) {
			return nil, fmt.Errorf("heapof() needs a slice of structs")
		}
		u := sl.Elem().Underlying().(*types.Struct)
		idx, ft, path := findField(u, selName(e.Args[1]))
		if idx < 0 || len(path) > 0 || isStruct(ft) || isArray(ft) {
			return nil, fmt.Errorf("heapof: no scalar field %s", selName(e.Args[1]))
		}
		loc, _, _ := g.fieldOf("0", sl.Elem(), idx)
		g.scalarComp(loc.Comp, loc.Ty)
		return &Val{T: g.heapTerm(sc.cur, loc.Comp)}, nil
	case "has":
		m, err := argv(0)
		if err != nil {
			return nil, err
		}
		k, err := argv(1)
		if err != nil {
			return nil, err
		}
		mt, ok := m.Ty.Underlying().(*types.Map)
		if !ok {
			return nil, fmt.Errorf("has() of non-map")
		}
		mc := g.mapComps(mt)
		return &Val{T: and(sx("distinct", m.T, "0"), sel(sel(g.heapTerm(sc.cur, mc.has), m.T), k.T)), Ty: boolType}, nil
	case "ite":
		c, err := argv(0)
		if err != nil {
			return nil, err
		}
		a, err := argv(1)
		if err != nil {
			return nil, err
		}
		b, err := argv(2)
		if err != nil {
			return nil, err
		}
		return &Val{T: ite(c.T, a.T, b.T), Ty: a.Ty}, nil
	case "allok":
		if sc.callee || len(e.Args) != 1 {
			return nil, fmt.Errorf("allok(selector)")
		}
		return &Val{T: g.ghostTerm(sc.cur, "$allok:"+selName(e.Args[0])), Ty: boolType}, nil
	case "called", "succeeded", "count":
		if sc.callee {
			return nil, fmt.Errorf("call history of the callee is not visible at a call site")
		}
		if len(e.Args) != 1 {
			return nil, fmt.Errorf("%s takes one selector", e.Name)
		}
		sel := selName(e.Args[0])
		switch e.Name {
		case "called":
			return &Val{T: g.ghostTerm(sc.cur, "$called:"+sel), Ty: boolType}, nil
		case "succeeded":
			g.ghostSorts["$called:"+sel] = "Bool"
			g.ghostSorts["$ok:"+sel] = "Bool"
			return &Val{T: and(g.ghostTerm(sc.cur, "$called:"+sel), g.ghostTerm(sc.cur, "$ok:"+sel)), Ty: boolType}, nil
		default:
			return &Val{T: g.ghostTerm(sc.cur, "$count:"+sel), Ty: intType}, nil
		}
	case "since":
		if sc.callee || len(e.Args) != 2 {
			return nil, fmt.Errorf("since(A, B): calls of A since the last call of B")
		}
		return &Val{T: g.ghostTerm(sc.cur, "$since:"+selName(e.Args[0])+"|"+selName(e.Args[1])), Ty: intType}, nil
	case "stored":
		if sc.callee || len(e.Args) != 1 {
			return nil, fmt.Errorf("stored(field) is only meaningful inside the function itself")
		}
		g.ghostSorts["$stored:"+selName(e.Args[0])] = "Bool"
		return &Val{T: g.ghostTerm(sc.cur, "$stored:"+selName(e.Args[0])), Ty: boolType}, nil
	case "at_call":
		// at_call(sel, E): the value E had right before the most recent call of sel
		if sc.callee || len(e.Args) != 2 {
			return nil, fmt.Errorf("at_call(selector, expr) is only meaningful inside the function itself")
		}
		gn := snapName(selName(e.Args[0]), e.Args[1])
		if _, ok := g.ghostSorts[gn]; !ok {
			return nil, fmt.Errorf("at_call: no call matching %s seen before this point", selName(e.Args[0]))
		}
		return &Val{T: g.ghostTerm(sc.cur, gn), Ty: g.ghostTypes[gn]}, nil
	case "loaded":
		if sc.callee || len(e.Args) != 1 {
			return nil, fmt.Errorf("loaded(field) is only meaningful inside the function itself")
		}
		gn := "$loaded:" + selName(e.Args[0])
		if _, ok := g.ghostSorts[gn]; !ok {
			return nil, fmt.Errorf("loaded: the function never reads a field named %s", selName(e.Args[0]))
		}
		return &Val{T: g.ghostTerm(sc.cur, gn), Ty: g.ghostTypes[gn]}, nil
	case "sent":
		if sc.callee || len(e.Args) != 1 {
			return nil, fmt.Errorf("sent(field) is only meaningful inside the function itself")
		}
		return &Val{T: g.ghostTerm(sc.cur, "$sent:"+selName(e.Args[0])), Ty: intType}, nil
	case "result_of":
		if sc.callee {
			return nil, fmt.Errorf("call history of the callee is not visible at a call site")
		}
		if len(e.Args) != 2 || e.Args[1].Kind != SNum {
			return nil, fmt.Errorf("result_of(selector, index)")
		}
		gn := fmt.Sprintf("$res:%s:%s", selName(e.Args[0]), e.Args[1].Name)
		if _, ok := g.ghostSorts[gn]; !ok {
			return nil, fmt.Errorf("result_of: no call matching %s seen before this point", selName(e.Args[0]))
		}
		return &Val{T: g.ghostTerm(sc.cur, gn), Ty: g.ghostTypes[gn]}, nil
	case "isboundmethod":
		// isboundmethod(f, "(*T).M"): f is the method value x.M (a bound method of that
		// name), not some other function or closure
		if len(e.Args) != 2 {
			return nil, fmt.Errorf("isboundmethod(f, \"(*T).M\")")
		}
		f, err := argv(0)
		if err != nil {
			return nil, err
		}
		ok := false
		if f.Fn != nil && strings.HasSuffix(f.Fn.Name(), "$bound") && f.Fn.Synthetic != "" {
			if obj := f.Fn.Object(); obj != nil {
				for _, n := range funcNamesObj(obj) {
					if n == selName(e.Args[1]) {
						ok = true
					}
				}
			}
			if strings.TrimSuffix(f.Fn.Name(), "$bound") == selName(e.Args[1]) || strings.HasSuffix(strings.TrimSuffix(f.Fn.String(), "$bound"), selName(e.Args[1])) {
				ok = true
			}
		}
		if ok {
			return &Val{T: "true", Ty: boolType}, nil
		}
		return &Val{T: "false", Ty: boolType}, nil
	case "bound":
		// bound(f, i): the i-th value captured by the closure / bound method value f
		if len(e.Args) != 2 || e.Args[1].Kind != SNum {
			return nil, fmt.Errorf("bound(f, index)")
		}
		f, err := argv(0)
		if err != nil {
			return nil, err
		}
		var idx int
		fmt.Sscanf(e.Args[1].Name, "%d", &idx)
		if idx < 0 || idx >= len(f.Binds) {
			return nil, fmt.Errorf("bound(): the function value captures %d values", len(f.Binds))
		}
		return f.Binds[idx], nil
	case "exported":
		// exported(selector, name): the value the callee's contract exports under
		// that name, as of the latest call matching selector
		if sc.callee {
			return nil, fmt.Errorf("call history of the callee is not visible at a call site")
		}
		if len(e.Args) != 2 {
			return nil, fmt.Errorf("exported(selector, name)")
		}
		return &Val{T: g.ghostTerm(sc.cur, fmt.Sprintf("$exp:%s:%s", selName(e.Args[0]), selName(e.Args[1]))), Ty: intType}, nil
	case "sumlen":
		// sumlen(selector, i): the total length of the i-th result (a slice) over all
		// calls matching selector so far
		if sc.callee {
			return nil, fmt.Errorf("call history of the callee is not visible at a call site")
		}
		if len(e.Args) != 2 || e.Args[1].Kind != SNum {
			return nil, fmt.Errorf("sumlen(selector, index)")
		}
		return &Val{T: g.ghostTerm(sc.cur, fmt.Sprintf("$sumlen:%s:%s", selName(e.Args[0]), e.Args[1].Name)), Ty: intType}, nil
	case "arg_of":
		// arg_of(selector, i): the i-th argument of the latest call matching selector
		if sc.callee {
			return nil, fmt.Errorf("call history of the callee is not visible at a call site")
		}
		if len(e.Args) != 2 || e.Args[1].Kind != SNum {
			return nil, fmt.Errorf("arg_of(selector, index)")
		}
		gn := fmt.Sprintf("$arg:%s:%s", selName(e.Args[0]), e.Args[1].Name)
		if _, ok := g.ghostSorts[gn]; !ok {
			return nil, fmt.Errorf("arg_of: no call matching %s with argument %s in this function", selName(e.Args[0]), e.Args[1].Name)
		}
		return &Val{T: g.ghostTerm(sc.cur, gn), Ty: g.ghostTypes[gn]}, nil
	case "fresh":
		x, err := argv(0)
		if err != nil {
			return nil, err
		}
		ref := x.T
		if isSliceVal(x) {
			ref = sx("sl-base", x.T)
		}
		before := sc.brkBefore
		if before == "" {
			before = "brk0"
		}
		return &Val{T: and(sx(">=", ref, before), sx("<", ref, g.ghostTerm(sc.cur, "$brk"))), Ty: boolType}, nil
	case "isnil":
		x, err := argv(0)
		if err != nil {
			return nil, err
		}
		if isSliceVal(x) {
			return &Val{T: eq(sx("sl-base", x.T), "0"), Ty: boolType}, nil
		}
		return &Val{T: eq(x.T, "0"), Ty: boolType}, nil
	case "global":
		// global("pkg.Name"): the current value of a package-level variable
		if len(e.Args) != 1 {
			return nil, fmt.Errorf("global(\"pkg.Name\")")
		}
		gl := g.eng.findGlobal(selName(e.Args[0]))
		if gl == nil {
			return nil, fmt.Errorf("unknown package variable %q", selName(e.Args[0]))
		}
		gv := g.globalVal(gl)
		elem := gl.Type().(*types.Pointer).Elem()
		if isStruct(elem) {
			return &Val{T: gv.T, Ty: gl.Type()}, nil
		}
		return &Val{T: g.load(sc.cur, gv, elem), Ty: elem}, nil
	case "deref":
		x, err := argv(0)
		if err != nil {
			return nil, err
		}
		if x.Boxed != nil {
			x = x.Boxed
		}
		pt, ok := x.Ty.Underlying().(*types.Pointer)
		if !ok {
			return nil, fmt.Errorf("deref of non-pointer")
		}
		if isStruct(pt.Elem()) {
			return &Val{T: x.T, Ty: x.Ty, StructLoc: true}, nil
		}
		return &Val{T: g.load(sc.cur, x, pt.Elem()), Ty: pt.Elem()}, nil
	case "target_type":
		// the type id of what a pointer argument points to (static type)
		x, err := argv(0)
		if err != nil {
			return nil, err
		}
		if x.Boxed != nil {
			x = x.Boxed
		}
		pt, ok := x.Ty.Underlying().(*types.Pointer)
		if !ok {
			return nil, fmt.Errorf("target_type of non-pointer")
		}
		return &Val{T: intLit(int64(g.st.typeID(pt.Elem()))), Ty: intType}, nil
	case "typeid":
		if len(e.Args) != 1 {
			return nil, fmt.Errorf("typeid(\"type\")")
		}
		id, err := g.typeIDByName(selName(e.Args[0]))
		if err != nil {
			return nil, err
		}
		return &Val{T: intLit(int64(id)), Ty: intType}, nil
	case "iface":
		// the interface value holding x (of x's static type)
		x, err := argv(0)
		if err != nil {
			return nil, err
		}
		if types.IsInterface(x.Ty) {
			return x, nil
		}
		box, _ := g.st.boxFun(x.Ty)
		return &Val{T: sx(box, x.T)}, nil
	case "ptr":
		// ptr(x, "*pkg.T"): the integer term x read as a reference of type *T
		// (for uninterpreted prelude functions that denote heap objects)
		x, err := argv(0)
		if err != nil {
			return nil, err
		}
		if len(e.Args) != 2 {
			return nil, fmt.Errorf("ptr(x, \"*pkg.T\")")
		}
		t, err := g.typeByName(selName(e.Args[1]))
		if err != nil {
			return nil, err
		}
		return &Val{T: x.T, Ty: t}, nil
	case "asptr":
		// asptr(x, "*pkg.T"): the *T held by interface value x
		x, err := argv(0)
		if err != nil {
			return nil, err
		}
		if len(e.Args) != 2 {
			return nil, fmt.Errorf("asptr(x, \"*pkg.T\")")
		}
		t, err := g.typeByName(selName(e.Args[1]))
		if err != nil {
			return nil, err
		}
		_, unbox := g.st.boxFun(t)
		return &Val{T: sx(unbox, x.T), Ty: t}, nil
	case "typeis":
		// typeis(x, "pkg.T") : dynamic type of interface value x is the named type
		x, err := argv(0)
		if err != nil {
			return nil, err
		}
		if len(e.Args) != 2 {
			return nil, fmt.Errorf("typeis(x, \"type\")")
		}
		id, err := g.typeIDByName(selName(e.Args[1]))
		if err != nil {
			return nil, err
		}
		return &Val{T: and(sx("distinct", x.T, "0"), eq(sx("dyntype", x.T), intLit(int64(id)))), Ty: boolType}, nil
	}
	if d, ok := g.eng.defs[e.Name]; ok && d.GhostMap != "" {
		k, err := argv(0)
		if err != nil {
			return nil, err
		}
		c := g.comp("ghost."+d.Name, d.GhostMap)
		return &Val{T: sel(g.heapTerm(sc.cur, c.Name), k.T)}, nil
	}
	if d, ok := g.eng.defs[e.Name]; ok {
		if len(d.Params) != len(e.Args) {
			return nil, fmt.Errorf("%s takes %d arguments", e.Name, len(d.Params))
		}
		sub := *sc
		sub.env = map[string]*Val{}
		for i, p := range d.Params {
			v, err := argv(i)
			if err != nil {
				return nil, err
			}
			sub.env[p] = v
		}
		return sub.eval(d.Body)
	}
	// uninterpreted / prelude-defined function
	var as []string
	for i := range e.Args {
		v, err := argv(i)
		if err != nil {
			return nil, err
		}
		as = append(as, v.T)
	}
	if len(as) == 0 {
		return &Val{T: e.Name}, nil
	}
	return &Val{T: sx(e.Name, as...)}, nil
}

// lvalTargets resolves a modifies expression to heap locations.
func (sc *SpecCtx) lvalTargets(e *SExpr) ([]frameTarget, error) {
	g := sc.g
	if e.Kind == SIdent && !sc.callee {
		name := e.Name
		if strings.HasSuffix(name, "$1") && !g.localAmbig[strings.TrimSuffix(name, "$1")] {
			name = strings.TrimSuffix(name, "$1")
		}
		if p, ok := g.localAddr[name]; ok {
			elem := p.Ty.Underlying().(*types.Pointer).Elem()
			if !isStruct(elem) {
				loc := g.locOfPtr(p, elem)
				g.scalarComp(loc.Comp, loc.Ty)
				return []frameTarget{{Comp: loc.Comp, Ref: loc.Ref, Idx: loc.Idx}}, nil
			}
		}
	}
	switch e.Kind {
	case SField:
		if e.X.Kind == SSlice || e.X.Kind == SIndex {
			// s[*].F / s[i].F on a slice of structs
			sv, err := sc.eval(e.X.X)
			if err == nil {
				if sl, ok := sv.Ty.Underlying().(*types.Slice); ok && isStruct(sl.Elem()) {
					u := sl.Elem().Underlying().(*types.Struct)
					idx, ft, path := findField(u, e.Name)
					if idx < 0 || len(path) > 0 || isStruct(ft) || isArray(ft) {
						return nil, fmt.Errorf("modifies: no scalar field %s in the elements", e.Name)
					}
					loc, _, _ := g.fieldOf("0", sl.Elem(), idx)
					g.scalarComp(loc.Comp, loc.Ty)
					if e.X.Kind == SSlice {
						return []frameTarget{{Comp: loc.Comp, ElemBase: sx("sl-base", sv.T)}}, nil
					}
					iv, err := sc.eval(e.X.Y)
					if err != nil {
						return nil, err
					}
					return []frameTarget{{Comp: loc.Comp, Ref: sx("elemref", sx("sl-base", sv.T), sx("ix", sx("sl-off", sv.T), iv.T))}}, nil
				}
			}
		}
		x, err := sc.eval(e.X)
		if err != nil {
			return nil, err
		}
		st, ok := derefStruct(x.Ty)
		if !ok {
			return nil, fmt.Errorf("modifies: %s is not a pointer to struct", e.X)
		}
		u := st.Underlying().(*types.Struct)
		idx, ft, path := findField(u, e.Name)
		if idx < 0 || len(path) > 0 {
			return nil, fmt.Errorf("modifies: no direct field %s", e.Name)
		}
		loc, sub, _ := g.fieldOf(x.T, st, idx)
		if sub != "" {
			if isStruct(ft) {
				var out []frameTarget
				g.structTargets(sub, ft, &out)
				return out, nil
			}
			at := ft.Underlying().(*types.Array)
			c := g.comp(elemComp(at.Elem()), "(Array Int "+g.st.sortOf(at.Elem())+")")
			return []frameTarget{{Comp: c.Name, Ref: sub}}, nil
		}
		g.scalarComp(loc.Comp, loc.Ty)
		return []frameTarget{{Comp: loc.Comp, Ref: loc.Ref}}, nil
	case SIndex, SSlice:
		x, err := sc.eval(e.X)
		if err != nil {
			return nil, err
		}
		switch t := x.Ty.Underlying().(type) {
		case *types.Slice:
			if isStruct(t.Elem()) {
				return nil, fmt.Errorf("modifies on slices of structs is not supported; list the fields")
			}
			c := g.comp(elemComp(t.Elem()), "(Array Int "+g.st.sortOf(t.Elem())+")")
			if e.Kind == SIndex {
				i, err := sc.eval(e.Y)
				if err != nil {
					return nil, err
				}
				return []frameTarget{{Comp: c.Name, Ref: sx("sl-base", x.T), Idx: sx("ix", sx("sl-off", x.T), i.T)}}, nil
			}
			return []frameTarget{{Comp: c.Name, Ref: sx("sl-base", x.T)}}, nil
		case *types.Map:
			mc := g.mapComps(t)
			return []frameTarget{{Comp: mc.val, Ref: x.T}, {Comp: mc.has, Ref: x.T}, {Comp: mc.length, Ref: x.T}}, nil
		}
		return nil, fmt.Errorf("modifies: cannot index %s", typeKey(x.Ty))
	case SCall:
		if e.Name == "deref" && len(e.Args) == 1 {
			x, err := sc.eval(e.Args[0])
			if err != nil {
				return nil, err
			}
			if x.Boxed != nil {
				x = x.Boxed
			}
			pt, ok := x.Ty.Underlying().(*types.Pointer)
			if !ok {
				return nil, fmt.Errorf("modifies deref(): not a pointer")
			}
			if isStruct(pt.Elem()) {
				var out []frameTarget
				g.structTargets(x.T, pt.Elem(), &out)
				return out, nil
			}
			loc := g.locOfPtr(x, pt.Elem())
			g.scalarComp(loc.Comp, loc.Ty)
			return []frameTarget{{Comp: loc.Comp, Ref: loc.Ref, Idx: loc.Idx}}, nil
		}
		if d, ok := g.eng.defs[e.Name]; ok && d.Body != nil && len(d.Params) == len(e.Args) {
			// a def that denotes a location: resolve its body with the arguments bound
			sub := *sc
			sub.env = map[string]*Val{}
			for i, p := range d.Params {
				v, err := sc.eval(e.Args[i])
				if err != nil {
					return nil, err
				}
				sub.env[p] = v
			}
			return sub.lvalTargets(d.Body)
		}
		if d, ok := g.eng.defs[e.Name]; ok && d.GhostMap != "" && len(e.Args) == 1 {
			k, err := sc.eval(e.Args[0])
			if err != nil {
				return nil, err
			}
			c := g.comp("ghost."+d.Name, d.GhostMap)
			return []frameTarget{{Comp: c.Name, Ref: k.T}}, nil
		}
		if e.Name == "all" && len(e.Args) == 1 {
			// all(p): every field of the struct p points to
			x, err := sc.eval(e.Args[0])
			if err != nil {
				return nil, err
			}
			st, ok := derefStruct(x.Ty)
			if !ok {
				return nil, fmt.Errorf("modifies all(): not a pointer to struct")
			}
			var out []frameTarget
			g.structTargets(x.T, st, &out)
			return out, nil
		}
	}
	return nil, fmt.Errorf("unsupported modifies target %s", e)
}

func (g *Gen) structTargets(ref string, t types.Type, out *[]frameTarget) {
	u := t.Underlying().(*types.Struct)
	for i := 0; i < u.NumFields(); i++ {
		loc, sub, ft := g.fieldOf(ref, t, i)
		switch {
		case isStruct(ft):
			g.structTargets(sub, ft, out)
		case isArray(ft):
			at := ft.Underlying().(*types.Array)
			c := g.comp(elemComp(at.Elem()), "(Array Int "+g.st.sortOf(at.Elem())+")")
			*out = append(*out, frameTarget{Comp: c.Name, Ref: sub})
		default:
			g.scalarComp(loc.Comp, loc.Ty)
			*out = append(*out, frameTarget{Comp: loc.Comp, Ref: loc.Ref})
		}
	}
}

// typeIDByName resolves "pkg.T" or "*pkg.T" among the loaded named types.
func (g *Gen) typeIDByName(name string) (int, error) {
	t, err := g.typeByName(name)
	if err != nil {
		return 0, err
	}
	return g.st.typeID(t), nil
}

func (g *Gen) typeByName(name string) (types.Type, error) {
	return g.eng.typeByName(name)
}

// heapWF: every reference stored in the heap of a state was allocated before that
// state's allocation watermark (an invariant of the heap model).  Stated for
// ground terms only.
func (sc *SpecCtx) heapWF(v *Val) {
	if len(sc.qvars) > 0 || v.Ty == nil {
		return
	}
	g := sc.g
	brk := g.ghostTerm(sc.cur, "$brk")
	switch v.Ty.Underlying().(type) {
	case *types.Slice:
		g.assert(and(sx("wf-slice", v.T), sx("<", sx("sl-base", v.T), brk)))
	case *types.Pointer, *types.Map:
		g.assert(sx("<", v.T, brk))
	}
}
