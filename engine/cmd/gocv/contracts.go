package main

// Contract files: comment-only Go files (//go:build verif) in /repo packages,
// plus .vc files under /verif/spec for functions outside /repo (trusted).
// Every directive is one comment line "//verif:<keyword> <text>"; a line
// "//verif:+ <text>" continues the previous directive.

import (
	"fmt"
	"os"
	"regexp"
	"strconv"
	"strings"
)

type Clause struct {
	Label  string
	Src    string
	E      *SExpr
	Reason string
	Line   int
}

type LoopSpec struct {
	Vars      []string
	Invs      []Clause
	Decreases *Clause
	Hints     []Clause
}

type CallSpec struct {
	Sel   string
	Never bool
	Cl    Clause // for Never: optional "when" condition (nil E = always)
}

type Contract struct {
	Pkg       string // package path the contract file belongs to ("" for .vc files: key is fully qualified)
	Key       string // function key, e.g. "(*dlqWindow).store", or closure selector
	Closure   *ClosureSel
	IsIface   bool // contract on an interface method (used at invoke sites)
	Refines   string // key of the concrete method whose proved contract an interface contract restates
	Exports   []Clause // named post-state values (Label = name)
	Created   []Clause // closure contracts: conditions checked where the closure value is made
	Assumed   string   // non-empty: the body is not verified anywhere; the text says why
	Lets      map[string]*SExpr // contract-chosen names for values (let name = expr)
	Unclaimed [][2]string // obligation-name substrings not claimed by any property, with reasons
	IsFuncType bool // contract on calls through values of a named func type
	Params    []string
	Results   []string
	Requires  []Clause
	Ensures   []Clause
	Modifies  []*SExpr
	HasMod    bool
	Pure      bool
	Loops     map[int]*LoopSpec
	Calls     []CallSpec
	Preserves []PreserveSpec
	Stores    []CallSpec // store <field> requires <expr> (newval bound)
	Sends     []CallSpec // send <chanfield> requires <expr> (sentval bound)
	Monitors  []MonitorSpec
	Assumes   []Clause
	Hints     []Clause
	Ghosts    []GhostDecl
	Trusted   bool
	Mode      string
	Safety    map[string]bool
	SafetySet bool
	Inline    bool // callee is inlined at call sites instead of summarised (small helpers)
	File      string
	Line      int
	Props     []string
}

// Def is a spec macro: //verif:def name(params) = expr
type Def struct {
	Owns     []string // non-empty: an ownership declaration: Name = "Type.field", Owns = functions allowed to store to it
	GhostMap string // non-empty: a ghost map component Int -> sort
	Name   string
	Params []string
	Body   *SExpr
	Src    string
}

// PreserveSpec: an ASSUMED frame for calls matching Sel (listed as an assumption).
type PreserveSpec struct {
	Sel     string
	Targets []*SExpr
	Reason  string
	Src     string
}

// MonitorSpec: fields guarded by a mutex field of the same struct; acquiring the
// mutex forgets what is known about them (other goroutines may have changed them).
type MonitorSpec struct {
	Mutex  string
	Fields []string
	Call    string   // alternative form: any call with this selector ...
	Targets []*SExpr // ... forgets these locations
}

type GhostDecl struct {
	Name string
	Sort string // Int | Bool
}

type ClosureSel struct {
	Parent  string // function key of the enclosing function
	Calling string // selector of a call the closure body must contain
}

func (c *Contract) FullKey() string {
	if c.Pkg == "" {
		return c.Key
	}
	return c.Pkg + "." + c.Key
}

var hdrRe = regexp.MustCompile(`^(.*?)\(([^()]*)\)\s*(?:\(([^()]*)\))?\s*$`)

func splitNames(s string) []string {
	var out []string
	for _, p := range strings.Split(s, ",") {
		p = strings.TrimSpace(p)
		if p != "" {
			out = append(out, p)
		}
	}
	return out
}

// splitTop splits s on sep at paren/bracket depth 0.
func splitTop(s string, sep byte) []string {
	var out []string
	depth := 0
	start := 0
	inStr := false
	for i := 0; i < len(s); i++ {
		c := s[i]
		if inStr {
			if c == '\\' {
				i++
			} else if c == '"' {
				inStr = false
			}
			continue
		}
		switch c {
		case '"':
			inStr = true
		case '(', '[':
			depth++
		case ')', ']':
			depth--
		default:
			if c == sep && depth == 0 {
				out = append(out, strings.TrimSpace(s[start:i]))
				start = i + 1
			}
		}
	}
	out = append(out, strings.TrimSpace(s[start:]))
	return out
}

type rawDirective struct {
	kw   string
	text string
	line int
}

func readDirectives(lines []string) []rawDirective {
	var out []rawDirective
	for i, l := range lines {
		l = strings.TrimSpace(l)
		if !strings.HasPrefix(l, "//verif:") {
			continue
		}
		rest := strings.TrimPrefix(l, "//verif:")
		kw := rest
		text := ""
		if j := strings.IndexAny(rest, " \t"); j >= 0 {
			kw = rest[:j]
			text = strings.TrimSpace(rest[j+1:])
		}
		if kw == "+" {
			if len(out) > 0 {
				out[len(out)-1].text += " " + text
			}
			continue
		}
		out = append(out, rawDirective{kw, text, i + 1})
	}
	return out
}

var labelRe = regexp.MustCompile(`^([a-z-]+)\[([A-Za-z0-9_.:-]+)\]$`)

func mkClause(label, src string, line int) (Clause, error) {
	cl := Clause{Label: label, Src: src, Line: line}
	// optional trailing: because "reason"
	if j := strings.LastIndex(src, " because \""); j >= 0 && strings.HasSuffix(src, "\"") {
		cl.Reason = src[j+10 : len(src)-1]
		src = strings.TrimSpace(src[:j])
		cl.Src = src
	}
	e, err := ParseSpec(src)
	if err != nil {
		return cl, err
	}
	cl.E = e
	return cl, nil
}

// ParseContracts parses the directives found in the given text.
var defRe = regexp.MustCompile(`^([A-Za-z_][A-Za-z0-9_]*)\(([^()]*)\)\s*=\s*(.*)$`)

func ParseContracts(pkgPath, file string, text string) ([]*Contract, []*Def, error) {
	ds := readDirectives(strings.Split(text, "\n"))
	var out []*Contract
	var defs []*Def
	var cur *Contract
	fail := func(d rawDirective, err error) error {
		return fmt.Errorf("%s:%d: //verif:%s %s: %v", file, d.line, d.kw, d.text, err)
	}
	for _, d := range ds {
		kw := d.kw
		label := ""
		if m := labelRe.FindStringSubmatch(kw); m != nil {
			kw, label = m[1], m[2]
		}
		if kw == "func" || kw == "iface" || kw == "closure" || kw == "functype" {
			cur = &Contract{Pkg: pkgPath, File: file, Line: d.line, Loops: map[int]*LoopSpec{}, Safety: map[string]bool{}}
			text := d.text
			if kw == "closure" {
				// closure of <parent> calling <sel> (params) (results)
				m := regexp.MustCompile(`^of\s+(.+?)\s+calling\s+(\S+)\s*(\(.*)$`).FindStringSubmatch(text)
				if m == nil {
					return nil, nil, fail(d, fmt.Errorf("expected: closure of <func> calling <sel> (params) (results)"))
				}
				cur.Closure = &ClosureSel{Parent: strings.TrimSpace(m[1]), Calling: m[2]}
				cur.Key = "closure of " + cur.Closure.Parent + " calling " + cur.Closure.Calling
				text = "X" + m[3]
			}
			m := hdrRe.FindStringSubmatch(text)
			if m == nil {
				return nil, nil, fail(d, fmt.Errorf("bad function header"))
			}
			if kw != "closure" {
				cur.Key = strings.TrimSpace(m[1])
			}
			cur.Params = splitNames(m[2])
			cur.Results = splitNames(m[3])
			cur.IsIface = kw == "iface"
			cur.IsFuncType = kw == "functype"
			out = append(out, cur)
			continue
		}
		if kw == "owns" {
			// owns <Type.field> : <func>, <func>
			j := strings.Index(d.text, ":")
			if j < 0 {
				return nil, nil, fail(d, fmt.Errorf("owns <Type.field> : <functions>"))
			}
			defs = append(defs, &Def{Name: "owns:" + pkgPath + ":" + strings.TrimSpace(d.text[:j]), Owns: splitNames(d.text[j+1:]), Src: d.text})
			continue
		}
		if kw == "ghostmap" {
			f := strings.Fields(d.text)
			if len(f) != 2 {
				return nil, nil, fail(d, fmt.Errorf("ghostmap <name> <Int|Bool>"))
			}
			defs = append(defs, &Def{Name: f[0], GhostMap: f[1]})
			continue
		}
		if kw == "def" {
			m := defRe.FindStringSubmatch(d.text)
			if m == nil {
				return nil, nil, fail(d, fmt.Errorf("def name(params) = expr"))
			}
			body, err := ParseSpec(m[3])
			if err != nil {
				return nil, nil, fail(d, err)
			}
			defs = append(defs, &Def{Name: m[1], Params: splitNames(m[2]), Body: body, Src: m[3]})
			continue
		}
		if cur == nil {
			if kw == "file" || kw == "doc" {
				continue
			}
			return nil, nil, fail(d, fmt.Errorf("directive before any //verif:func"))
		}
		switch kw {
		case "requires":
			cl, err := mkClause(label, d.text, d.line)
			if err != nil {
				return nil, nil, fail(d, err)
			}
			cur.Requires = append(cur.Requires, cl)
		case "ensures":
			cl, err := mkClause(label, d.text, d.line)
			if err != nil {
				return nil, nil, fail(d, err)
			}
			cur.Ensures = append(cur.Ensures, cl)
		case "assumed":
			// assumed because "...": this contract is used by callers but its body is
			// NOT verified by any check (listed as ASSUMED in every evidence file)
			cur.Assumed = strings.TrimSpace(d.text)
			if cur.Assumed == "" {
				cur.Assumed = "no reason given"
			}
		case "unclaimed":
			// unclaimed <obligation-name-substring> because "...": obligations of this
			// function whose name contains the substring are generated but not claimed
			// by any property (the execution continues past them as if they held)
			txt := strings.TrimSpace(d.text)
			sub, why := txt, ""
			if j := strings.Index(txt, " because "); j >= 0 {
				sub, why = strings.TrimSpace(txt[:j]), strings.TrimSpace(txt[j+9:])
			}
			cur.Unclaimed = append(cur.Unclaimed, [2]string{sub, why})
		case "let":
			j := strings.Index(d.text, "=")
			if j < 0 {
				return nil, nil, fail(d, fmt.Errorf("let <name> = <expr>"))
			}
			le, err := ParseSpec(strings.TrimSpace(d.text[j+1:]))
			if err != nil {
				return nil, nil, fail(d, err)
			}
			if cur.Lets == nil {
				cur.Lets = map[string]*SExpr{}
			}
			cur.Lets[strings.TrimSpace(d.text[:j])] = le
		case "created":
			// created requires <expr>: on a closure contract; checked at the point
			// where the closure value is made, in the parent's context
			txt := strings.TrimSpace(strings.TrimPrefix(strings.TrimSpace(d.text), "requires"))
			cl, err := mkClause(label, txt, d.line)
			if err != nil {
				return nil, nil, fail(d, err)
			}
			cur.Created = append(cur.Created, cl)
		case "export":
			// export <name> = <int expr over params/results>: a value of the post-state
			// of every call, readable at call sites of the caller as exported(sel, name)
			j := strings.Index(d.text, "=")
			if j < 0 {
				return nil, nil, fail(d, fmt.Errorf("export <name> = <expr>"))
			}
			cl, err := mkClause(strings.TrimSpace(d.text[:j]), strings.TrimSpace(d.text[j+1:]), d.line)
			if err != nil {
				return nil, nil, fail(d, err)
			}
			cur.Exports = append(cur.Exports, cl)
		case "refines":
			// on an interface contract: the concrete method whose proved contract
			// this one restates (clause labels must match, see cmdCheck)
			cur.Refines = strings.TrimSpace(d.text)
		case "assume":
			cl, err := mkClause(label, d.text, d.line)
			if err != nil {
				return nil, nil, fail(d, err)
			}
			cur.Assumes = append(cur.Assumes, cl)
		case "hint":
			cl, err := mkClause(label, d.text, d.line)
			if err != nil {
				return nil, nil, fail(d, err)
			}
			if err := checkHint(cl.E); err != nil {
				return nil, nil, fail(d, err)
			}
			cur.Hints = append(cur.Hints, cl)
		case "modifies":
			cur.HasMod = true
			if strings.TrimSpace(d.text) == "nothing" {
				break
			}
			for _, part := range splitTop(d.text, ',') {
				if part == "" {
					continue
				}
				e, err := ParseSpec(strings.ReplaceAll(part, "[*]", "[0:]"))
				if err != nil {
					return nil, nil, fail(d, err)
				}
				cur.Modifies = append(cur.Modifies, e)
			}
		case "pure":
			cur.Pure = true
			cur.HasMod = true
		case "trusted":
			cur.Trusted = true
		case "inline":
			cur.Inline = true
		case "mode":
			cur.Mode = d.text
		case "props":
			cur.Props = splitNames(d.text)
		case "ghost":
			f := strings.Fields(d.text)
			if len(f) != 2 {
				return nil, nil, fail(d, fmt.Errorf("ghost <name> <Int|Bool>"))
			}
			cur.Ghosts = append(cur.Ghosts, GhostDecl{f[0], f[1]})
		case "safety":
			cur.SafetySet = true
			for _, s := range splitNames(d.text) {
				cur.Safety[s] = true
			}
		case "loop":
			f := strings.SplitN(d.text, " ", 3)
			if len(f) < 3 {
				return nil, nil, fail(d, fmt.Errorf("loop <n> <vars|invariant|decreases> ..."))
			}
			n, err := strconv.Atoi(f[0])
			if err != nil {
				return nil, nil, fail(d, err)
			}
			ls := cur.Loops[n]
			if ls == nil {
				ls = &LoopSpec{}
				cur.Loops[n] = ls
			}
			switch f[1] {
			case "vars":
				ls.Vars = splitNames(f[2])
			case "invariant":
				cl, err := mkClause(label, f[2], d.line)
				if err != nil {
					return nil, nil, fail(d, err)
				}
				ls.Invs = append(ls.Invs, cl)
			case "hint":
				cl, err := mkClause(label, f[2], d.line)
				if err != nil {
					return nil, nil, fail(d, err)
				}
				if err := checkHint(cl.E); err != nil {
					return nil, nil, fail(d, err)
				}
				ls.Hints = append(ls.Hints, cl)
			case "decreases":
				cl, err := mkClause(label, f[2], d.line)
				if err != nil {
					return nil, nil, fail(d, err)
				}
				ls.Decreases = &cl
			default:
				return nil, nil, fail(d, fmt.Errorf("unknown loop clause %q", f[1]))
			}
		case "call":
			// call <sel> requires <expr>
			f := strings.SplitN(d.text, " ", 3)
			if len(f) < 3 || f[1] != "requires" {
				return nil, nil, fail(d, fmt.Errorf("call <selector> requires <expr>"))
			}
			cl, err := mkClause(label, f[2], d.line)
			if err != nil {
				return nil, nil, fail(d, err)
			}
			cur.Calls = append(cur.Calls, CallSpec{Sel: f[0], Cl: cl})
		case "store", "send":
			f := strings.SplitN(d.text, " ", 3)
			if len(f) < 3 || f[1] != "requires" {
				return nil, nil, fail(d, fmt.Errorf("%s <field> requires <expr>", kw))
			}
			cl, err := mkClause(label, f[2], d.line)
			if err != nil {
				return nil, nil, fail(d, err)
			}
			if kw == "store" {
				cur.Stores = append(cur.Stores, CallSpec{Sel: f[0], Cl: cl})
			} else {
				cur.Sends = append(cur.Sends, CallSpec{Sel: f[0], Cl: cl})
			}
		case "interference":
			// interference <callSelector> havocs <locations>   (e.g. a lock acquisition
			// after which other goroutines may have changed the listed locations)
			f := strings.SplitN(d.text, " ", 3)
			if len(f) < 3 || f[1] != "havocs" {
				return nil, nil, fail(d, fmt.Errorf("interference <callSelector> havocs <locations>"))
			}
			ms := MonitorSpec{Call: f[0]}
			for _, part := range splitTop(f[2], ',') {
				e, err := ParseSpec(strings.ReplaceAll(part, "[*]", "[0:]"))
				if err != nil {
					return nil, nil, fail(d, err)
				}
				ms.Targets = append(ms.Targets, e)
			}
			cur.Monitors = append(cur.Monitors, ms)
		case "monitor":
			// monitor <mutexField> guards <f1>, <f2>
			f := strings.SplitN(d.text, " ", 3)
			if len(f) < 3 || f[1] != "guards" {
				return nil, nil, fail(d, fmt.Errorf("monitor <mutexField> guards <fields>"))
			}
			cur.Monitors = append(cur.Monitors, MonitorSpec{Mutex: f[0], Fields: splitNames(f[2])})
		case "call-preserves":
			// call-preserves <sel> : <lvalues> because "reason"
			txt := d.text
			reason := ""
			if j := strings.LastIndex(txt, " because \""); j >= 0 && strings.HasSuffix(txt, "\"") {
				reason = txt[j+10 : len(txt)-1]
				txt = strings.TrimSpace(txt[:j])
			}
			j := strings.Index(txt, ":")
			if j < 0 || reason == "" {
				return nil, nil, fail(d, fmt.Errorf("call-preserves <selector> : <locations> because \"reason\""))
			}
			psp := PreserveSpec{Sel: strings.TrimSpace(txt[:j]), Reason: reason, Src: d.text}
			for _, part := range splitTop(txt[j+1:], ',') {
				if part == "" {
					continue
				}
				e, err := ParseSpec(strings.ReplaceAll(part, "[*]", "[0:]"))
				if err != nil {
					return nil, nil, fail(d, err)
				}
				psp.Targets = append(psp.Targets, e)
			}
			cur.Preserves = append(cur.Preserves, psp)
		case "never":
			f := strings.SplitN(d.text, " ", 3)
			cs := CallSpec{Sel: f[0], Never: true, Cl: Clause{Label: label, Line: d.line, Src: "never " + d.text}}
			if len(f) == 3 && f[1] == "when" {
				cl, err := mkClause(label, f[2], d.line)
				if err != nil {
					return nil, nil, fail(d, err)
				}
				cl.Src = "never " + d.text
				cs.Cl = cl
			} else if len(f) != 1 {
				return nil, nil, fail(d, fmt.Errorf("never <selector> [when <expr>]"))
			}
			cur.Calls = append(cur.Calls, cs)
		case "end", "doc", "file":
		default:
			return nil, nil, fail(d, fmt.Errorf("unknown directive"))
		}
	}
	return out, defs, nil
}

func ParseContractFile(pkgPath, file string) ([]*Contract, []*Def, error) {
	b, err := os.ReadFile(file)
	if err != nil {
		return nil, nil, err
	}
	return ParseContracts(pkgPath, file, string(b))
}

// checkHint: a hint may only instantiate proved lemmas and definitional
// unfoldings (calls of lemma_* / unfold_* macros, possibly conjoined).
func checkHint(e *SExpr) error {
	switch {
	case e.Kind == SBinary && e.Op == "&&":
		if err := checkHint(e.X); err != nil {
			return err
		}
		return checkHint(e.Y)
	case e.Kind == SCall && (strings.HasPrefix(e.Name, "lemma_") || strings.HasPrefix(e.Name, "unfold_")):
		return nil
	}
	return fmt.Errorf("a hint must be a call of a lemma_* or unfold_* macro (or a conjunction of such), got %s", e)
}
