package main

import (
	"context"
	"crypto/sha256"
	"encoding/hex"
	"fmt"
	"os"
	"os/exec"
	"path/filepath"
	"strings"
	"sync"
	"time"
)

const preludeHeap = `
(declare-fun fld (Int Int) Int)
(declare-fun fld-ref (Int) Int)
(declare-fun fld-id (Int) Int)
(declare-fun elemref (Int Int) Int)
(declare-fun elem-base (Int) Int)
(declare-fun elem-idx (Int) Int)
(declare-fun elemaddr (Int Int) Int)
(declare-fun refkind (Int) Int)
(declare-fun root (Int) Int)
(assert (forall ((i Int) (r Int)) (! (and (= (fld-ref (fld i r)) r) (= (fld-id (fld i r)) i) (< (fld i r) (- 10000000)) (= (refkind (fld i r)) 1) (= (root (fld i r)) (root r))) :pattern ((fld i r)))))
(assert (forall ((b Int) (i Int)) (! (and (= (elem-base (elemref b i)) b) (= (elem-idx (elemref b i)) i) (< (elemref b i) (- 10000000)) (= (refkind (elemref b i)) 2) (= (root (elemref b i)) (root b))) :pattern ((elemref b i)))))
(assert (forall ((r Int)) (! (=> (> r (- 10000000)) (= (root r) r)) :pattern ((root r)))))
(assert (forall ((r Int)) (! (=> (= (refkind r) 2) (= r (elemref (elem-base r) (elem-idx r)))) :pattern ((elem-base r)))))
(assert (forall ((r Int)) (! (=> (= (refkind r) 1) (= r (fld (fld-id r) (fld-ref r)))) :pattern ((fld-ref r)))))
(declare-fun strbyte (Int Int) Int)
(assert (forall ((s Int) (i Int)) (! (and (<= 0 (strbyte s i)) (<= (strbyte s i) 255)) :pattern ((strbyte s i)))))
(declare-fun substr (Int Int Int) Int)
(declare-fun str-bytes (Int) (Array Int Int))
(declare-fun bytes-str ((Array Int Int) Int Int) Int)
(declare-fun bitand (Int Int) Int)
(declare-fun bitor (Int Int) Int)
(declare-fun bitxor (Int Int) Int)
(declare-fun bitshl (Int Int) Int)
(declare-fun bitshr (Int Int) Int)
(declare-fun bitandnot (Int Int) Int)
`

type SolveResult struct {
	Status string // unsat | sat | unknown | timeout | error
	Solver string
	Time   float64
	Output string
	File   string
	Model  string
}

// smtText assembles the query for one obligation.
func (g *Gen) smtText(o *Obligation, userPrelude string, withModel bool) string {
	var b strings.Builder
	if withModel {
		b.WriteString("(set-option :produce-models true)\n")
	}
	b.WriteString("(set-logic ALL)\n")
	b.WriteString(preludeCore)
	b.WriteString(preludeHeap)
	for _, d := range g.st.structDecls {
		b.WriteString(d + "\n")
	}
	for _, d := range g.st.funDecls {
		b.WriteString(d + "\n")
	}
	b.WriteString(userPrelude)
	b.WriteString("\n")
	for _, d := range g.decls {
		b.WriteString(d + "\n")
	}
	for _, c := range g.ctx[:o.CtxLen] {
		b.WriteString(c + "\n")
	}
	b.WriteString("; obligation " + o.Name + "\n; " + strings.ReplaceAll(o.Src, "\n", " ") + "\n")
	if o.Must == "sat" {
		b.WriteString("(assert " + o.Guard + ")\n")
	} else {
		b.WriteString("(assert " + and(o.Guard, not(o.Formula)) + ")\n")
	}
	b.WriteString("(check-sat)\n")
	if withModel {
		b.WriteString("(get-model)\n")
	}
	return b.String()
}

type solverSpec struct {
	name string
	args func(file string, timeoutS int) []string
}

var solvers = []solverSpec{
	{"z3-new", func(f string, t int) []string { return []string{"z3-new", "-smt2", fmt.Sprintf("-T:%d", t), f} }},
	{"z3", func(f string, t int) []string { return []string{"z3", "-smt2", fmt.Sprintf("-T:%d", t), f} }},
	{"cvc5", func(f string, t int) []string {
		return []string{"cvc5", "--incremental", fmt.Sprintf("--tlimit=%d", t*1000), f}
	}},
}

func runSolver(sp solverSpec, file string, timeoutS int) SolveResult {
	ctx, cancel := context.WithTimeout(context.Background(), time.Duration(timeoutS+2)*time.Second)
	defer cancel()
	args := sp.args(file, timeoutS)
	start := time.Now()
	cmd := exec.CommandContext(ctx, args[0], args[1:]...)
	out, _ := cmd.CombinedOutput()
	el := time.Since(start).Seconds()
	text := strings.TrimSpace(string(out))
	first := text
	if i := strings.Index(text, "\n"); i >= 0 {
		first = text[:i]
	}
	first = strings.TrimSpace(first)
	res := SolveResult{Solver: sp.name, Time: el, Output: text, File: file}
	switch {
	case first == "unsat":
		res.Status = "unsat"
	case first == "sat":
		res.Status = "sat"
	case first == "unknown":
		res.Status = "unknown"
	case first == "timeout" || ctx.Err() != nil || strings.Contains(text, "interrupted by timeout"):
		res.Status = "timeout"
	default:
		res.Status = "error"
	}
	return res
}

// discharge runs the solvers on one query: z3-new first with a short budget,
// then all three raced with the full budget.
func discharge(file string, timeoutS int) SolveResult {
	quick := 3
	if timeoutS < quick {
		quick = timeoutS
	}
	r := runSolver(solvers[0], file, quick)
	if r.Status == "unsat" || r.Status == "sat" {
		return r
	}
	ch := make(chan SolveResult, len(solvers))
	for _, sp := range solvers {
		go func(sp solverSpec) { ch <- runSolver(sp, file, timeoutS) }(sp)
	}
	var last SolveResult
	var errs []string
	for range solvers {
		x := <-ch
		if x.Status == "unsat" || x.Status == "sat" {
			return x
		}
		if x.Status == "error" {
			errs = append(errs, x.Solver+": "+firstLines(x.Output, 3))
		}
		// keep the most informative undecided answer: unknown > timeout > error
		rank := map[string]int{"": 0, "error": 1, "timeout": 2, "unknown": 3}
		if rank[x.Status] > rank[last.Status] {
			last = x
		}
	}
	if len(errs) == len(solvers) {
		last.Status = "error"
		last.Output = strings.Join(errs, " | ")
	}
	return last
}

func firstLines(s string, n int) string {
	l := strings.Split(s, "\n")
	if len(l) > n {
		l = l[:n]
	}
	return strings.Join(l, " / ")
}

// solveAll discharges every obligation of the generated functions in parallel.
func solveAll(gens []*Gen, prelude string, outDir string, timeoutS int, workers int) {
	type job struct {
		g *Gen
		o *Obligation
	}
	var jobs []job
	for _, g := range gens {
		for _, o := range g.obls {
			jobs = append(jobs, job{g, o})
		}
	}
	os.MkdirAll(outDir, 0o755)
	// one file per obligation: same-named functions of different packages (both
	// "lifecycle") must not share a file
	files := map[*Obligation]string{}
	used := map[string]int{}
	for _, j := range jobs {
		base := sanitize(j.o.Name)
		used[base]++
		if n := used[base]; n > 1 {
			base = fmt.Sprintf("%s.dup%d", base, n)
		}
		files[j.o] = base
	}
	var wg sync.WaitGroup
	ch := make(chan job)
	for w := 0; w < workers; w++ {
		wg.Add(1)
		go func() {
			defer wg.Done()
			for j := range ch {
				file := filepath.Join(outDir, files[j.o]+".smt2")
				text := j.g.smtText(j.o, prelude, false)
				os.WriteFile(file, []byte(text), 0o644)
				var r SolveResult
				if cr, ok := cacheGet(text, j.o.Must); ok {
					cr.File = file
					j.o.Result = &cr
					continue
				}
				if j.o.Must == "sat" {
					// vacuity probe: only an unsat answer matters (contradictory
					// assumptions show up fast); one solver, short budget
					r = runSolver(solvers[0], file, 3)
					for k := 1; k < len(solvers) && r.Status == "error"; k++ {
						// a crashed or killed solver process says nothing about the query
						r = runSolver(solvers[k], file, 3)
					}
				} else {
					r = discharge(file, timeoutS)
				}
				if r.Status == "sat" && j.o.Must != "sat" {
					// get a model from the solver that answered
					mfile := filepath.Join(outDir, files[j.o]+".model.smt2")
					os.WriteFile(mfile, []byte(j.g.smtText(j.o, prelude, true)), 0o644)
					for _, sp := range solvers {
						if sp.name == r.Solver {
							mr := runSolver(sp, mfile, timeoutS)
							if mr.Status == "sat" {
								r.Model = mr.Output
							}
						}
					}
				}
				j.o.Result = &r
				cachePut(text, j.o.Must, &r)
			}
		}()
	}
	for _, j := range jobs {
		ch <- j
	}
	close(ch)
	wg.Wait()
	// second chance for timeouts: a query that ran out of time while all workers were
	// busy (or the machine was loaded) is retried with twice the budget, a few at a
	// time; a genuine failure is rarely a timeout (it comes back unknown quickly)
	var retry []job
	for _, j := range jobs {
		if j.o.Must != "sat" && j.o.Result != nil && j.o.Result.Status == "timeout" {
			retry = append(retry, j)
		}
	}
	if len(retry) > 0 && len(retry) <= 40 {
		sem := make(chan struct{}, 4)
		var wg2 sync.WaitGroup
		for _, j := range retry {
			wg2.Add(1)
			sem <- struct{}{}
			go func(j job) {
				defer wg2.Done()
				defer func() { <-sem }()
				r := discharge(j.o.Result.File, 2*timeoutS)
				r.Time += j.o.Result.Time
				j.o.Result = &r
				if b, err := os.ReadFile(r.File); err == nil {
					cachePut(string(b), j.o.Must, &r)
				}
			}(j)
		}
		wg2.Wait()
	}
}

// ---- result cache (development tools only) ----------------------------------------
// With VERIF_CACHE=<dir> a query whose text (comments stripped) is byte-identical to one
// already decided is not sent to the solvers again.  The VCs are still generated from the
// tree on every run; only an "unsat" (or, for a vacuity probe, a "sat"/"unknown") is
// reused.  The registered quick/thorough commands do not set VERIF_CACHE; the must-fail
// and must-pass corpora do, because nearly all queries of a seeded tree equal those of
// the unchanged tree.

func cacheKey(text, must string) string {
	var b strings.Builder
	for _, l := range strings.Split(text, "\n") {
		if strings.HasPrefix(l, ";") {
			continue
		}
		b.WriteString(l)
		b.WriteByte('\n')
	}
	h := sha256.Sum256([]byte(must + "|" + b.String()))
	return hex.EncodeToString(h[:])
}

func cacheGet(text, must string) (SolveResult, bool) {
	dir := os.Getenv("VERIF_CACHE")
	if dir == "" {
		return SolveResult{}, false
	}
	k := cacheKey(text, must)
	b, err := os.ReadFile(filepath.Join(dir, k[:2], k))
	if err != nil {
		return SolveResult{}, false
	}
	parts := strings.SplitN(strings.TrimSpace(string(b)), " ", 2)
	if len(parts) != 2 {
		return SolveResult{}, false
	}
	return SolveResult{Status: parts[0], Solver: parts[1] + " (cached)", Output: parts[0]}, true
}

func cachePut(text, must string, r *SolveResult) {
	dir := os.Getenv("VERIF_CACHE")
	if dir == "" || r == nil || strings.HasSuffix(r.Solver, "(cached)") {
		return
	}
	ok := r.Status == "unsat" && must != "sat"
	if must == "sat" && (r.Status == "sat" || r.Status == "unknown") {
		ok = true
	}
	if !ok {
		return
	}
	k := cacheKey(text, must)
	os.MkdirAll(filepath.Join(dir, k[:2]), 0o755)
	tmp := filepath.Join(dir, k[:2], k+fmt.Sprintf(".tmp%d", os.Getpid()))
	if os.WriteFile(tmp, []byte(r.Status+" "+r.Solver+"\n"), 0o644) == nil {
		os.Rename(tmp, filepath.Join(dir, k[:2], k))
	}
}
