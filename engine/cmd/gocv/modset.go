package main

// Static write-set ("ownership") analysis: which heap components can a function
// write, transitively.  Used for the default frame of calls without an explicit
// modifies clause and for the havoc set of loops.

import (
	"go/types"
	"strings"

	"golang.org/x/tools/go/ssa"
)

const (
	scScalar = iota
	scElems
	scMapVal
	scMapHas
	scMapLen
	scGhost
)

type sComp struct {
	Name string
	Kind int
	T    types.Type
	M    *types.Map
	Sort string
}

func (g *Gen) materialize(c sComp) {
	if _, ok := g.comps[c.Name]; ok {
		return
	}
	switch c.Kind {
	case scScalar:
		g.comp(c.Name, g.st.sortOf(c.T))
	case scElems:
		g.comp(c.Name, "(Array Int "+g.st.sortOf(c.T)+")")
	case scGhost:
		g.comp(c.Name, c.Sort)
	default:
		g.mapComps(c.M)
	}
}

type compSet map[string]sComp

func (s compSet) add(c sComp) bool {
	if _, ok := s[c.Name]; ok {
		return false
	}
	s[c.Name] = c
	return true
}

func (s compSet) addAll(o compSet) bool {
	ch := false
	for _, c := range o {
		if strings.HasPrefix(c.Name, "local.") {
			continue // a callee's private locals are invisible to its callers
		}
		if s.add(c) {
			ch = true
		}
	}
	return ch
}

// compsOfType: all scalar components written by storing a whole value of type t
// at a location (struct: every flattened field; array: element component).
func compsOfStore(t types.Type, scalarName string, out compSet) {
	switch u := t.Underlying().(type) {
	case *types.Struct:
		for i := 0; i < u.NumFields(); i++ {
			f := u.Field(i)
			compsOfStore(f.Type(), fieldComp(t, fieldName(u, i)), out)
		}
	case *types.Array:
		if isStruct(u.Elem()) {
			compsOfStore(u.Elem(), "", out)
		} else {
			out.add(sComp{Name: elemComp(u.Elem()), Kind: scElems, T: u.Elem()})
		}
	default:
		if scalarName != "" {
			out.add(sComp{Name: scalarName, Kind: scScalar, T: t})
		}
	}
}

func mapSComps(mt *types.Map, out compSet) {
	k := "map[" + typeKey(mt.Key()) + "]" + typeKey(mt.Elem())
	out.add(sComp{Name: k + ".val", Kind: scMapVal, M: mt})
	out.add(sComp{Name: k + ".has", Kind: scMapHas, M: mt})
	out.add(sComp{Name: k + ".len", Kind: scMapLen, M: mt})
}

// localPrefix: the component prefix for memory of a non-escaping local alloc
// (go/ssa marks allocs whose address does not leave the function Heap=false).
func localPrefix(v ssa.Value) string {
	for {
		switch a := v.(type) {
		case *ssa.Alloc:
			if !a.Heap {
				return "local." + a.Name() + ":"
			}
			return ""
		case *ssa.FieldAddr:
			// only through by-value nesting (a sub-struct of the local itself)
			v = a.X
		case *ssa.IndexAddr:
			if _, ok := a.X.Type().Underlying().(*types.Pointer); !ok {
				return "" // element of a slice: not the local's own storage
			}
			v = a.X
		default:
			return ""
		}
	}
}

func prefixAll(pfx string, in compSet, out compSet) {
	for _, c := range in {
		if pfx != "" && (c.Kind == scScalar || c.Kind == scElems) {
			c.Name = pfx + c.Name
		}
		out.add(c)
	}
}

// addrComps: components written by a store through addr.
func addrComps(addr ssa.Value, out0 compSet) {
	pfx := localPrefix(addr)
	out := out0
	if pfx != "" {
		out = compSet{}
		defer func() { prefixAll(pfx, out, out0) }()
	}
	elem := addr.Type().Underlying().(*types.Pointer).Elem()
	switch a := addr.(type) {
	case *ssa.FieldAddr:
		st := a.X.Type().Underlying().(*types.Pointer).Elem()
		su := st.Underlying().(*types.Struct)
		compsOfStore(su.Field(a.Field).Type(), fieldComp(st, fieldName(su, a.Field)), out)
	case *ssa.IndexAddr:
		if isStruct(elem) {
			compsOfStore(elem, "", out)
		} else {
			out.add(sComp{Name: elemComp(elem), Kind: scElems, T: elem})
		}
	case *ssa.Global:
		compsOfStore(elem, "global:"+a.String(), out)
	default:
		compsOfStore(elem, cellComp(elem), out)
	}
}

// directWrites lists the components an instruction writes itself (calls excluded).
func directWrites(in ssa.Instruction, out compSet) {
	switch x := in.(type) {
	case *ssa.Store:
		addrComps(x.Addr, out)
	case *ssa.Alloc:
		elem := x.Type().(*types.Pointer).Elem()
		if pfx := localPrefix(x); pfx != "" {
			tmp := compSet{}
			compsOfStore(elem, cellComp(elem), tmp)
			prefixAll(pfx, tmp, out)
		} else {
			compsOfStore(elem, cellComp(elem), out)
		}
	case *ssa.MakeSlice:
		elem := x.Type().Underlying().(*types.Slice).Elem()
		if isStruct(elem) {
			compsOfStore(elem, "", out)
		} else {
			out.add(sComp{Name: elemComp(elem), Kind: scElems, T: elem})
		}
	case *ssa.MakeMap:
		mapSComps(x.Type().Underlying().(*types.Map), out)
	case *ssa.MapUpdate:
		mapSComps(x.Map.Type().Underlying().(*types.Map), out)
	case *ssa.Convert:
		if sl, ok := x.Type().Underlying().(*types.Slice); ok {
			out.add(sComp{Name: elemComp(sl.Elem()), Kind: scElems, T: sl.Elem()})
		}
	case *ssa.Call:
		builtinWrites(&x.Call, out)
	case *ssa.Defer:
		builtinWrites(&x.Call, out)
	case *ssa.Go:
		builtinWrites(&x.Call, out)
	}
}

func builtinWrites(c *ssa.CallCommon, out compSet) {
	b, ok := c.Value.(*ssa.Builtin)
	if !ok {
		return
	}
	switch b.Name() {
	case "append", "copy":
		if sl, ok := c.Args[0].Type().Underlying().(*types.Slice); ok {
			if isStruct(sl.Elem()) {
				compsOfStore(sl.Elem(), "", out)
			} else {
				out.add(sComp{Name: elemComp(sl.Elem()), Kind: scElems, T: sl.Elem()})
			}
		}
	case "delete":
		if mt, ok := c.Args[0].Type().Underlying().(*types.Map); ok {
			mapSComps(mt, out)
		}
	case "clear":
		switch t := c.Args[0].Type().Underlying().(type) {
		case *types.Map:
			mapSComps(t, out)
		case *types.Slice:
			if isStruct(t.Elem()) {
				compsOfStore(t.Elem(), "", out)
			} else {
				out.add(sComp{Name: elemComp(t.Elem()), Kind: scElems, T: t.Elem()})
			}
		}
	}
}

// computeModsets runs the fixpoint over all functions with bodies.
func (e *Engine) computeModsets() {
	e.modset = map[*ssa.Function]compSet{}
	e.callees = map[*ssa.Function][]*ssa.Function{}
	var fns []*ssa.Function
	for fn := range e.allFuncs {
		if fn.Blocks != nil {
			fns = append(fns, fn)
		}
	}
	// signature index for dynamic calls and method index for invokes
	e.bySig = map[string][]*ssa.Function{}
	for _, fn := range fns {
		if fn.Signature.Recv() == nil {
			k := sigKey(fn.Signature)
			e.bySig[k] = append(e.bySig[k], fn)
		}
	}
	for _, fn := range fns {
		ms := compSet{}
		for _, b := range fn.Blocks {
			for _, in := range b.Instrs {
				directWrites(in, ms)
				var cc *ssa.CallCommon
				switch x := in.(type) {
				case *ssa.Call:
					cc = &x.Call
				case *ssa.Defer:
					cc = &x.Call
				case *ssa.Go:
					cc = &x.Call
				}
				if cc != nil {
					if gc := e.namedDynContract(cc); gc != nil && gc.HasMod {
						env := map[string]types.Type{}
						for i, a := range cc.Args {
							if i < len(gc.Params) {
								env[gc.Params[i]] = a.Type()
							}
						}
						ms.addAll(e.modCompsEnv(gc, env))
						continue
					}
					if ftc := e.funcTypeContract(cc); ftc != nil && ftc.HasMod {
						env := map[string]types.Type{}
						if len(ftc.Params) > 0 {
							env[ftc.Params[0]] = cc.Value.Type()
						}
						ms.addAll(e.modCompsEnv(ftc, env))
						continue
					}
					if cc.IsInvoke() {
						if ic := e.ifaceContract(cc); ic != nil && ic.HasMod {
							ms.addAll(e.contractModCompsSig(ic, cc.Signature(), true))
							continue
						}
					}
					e.callees[fn] = append(e.callees[fn], e.possibleCallees(cc)...)
					e.externArgWrites(cc, ms)
				}
			}
		}
		e.modset[fn] = ms
	}
	for changed := true; changed; {
		changed = false
		for _, fn := range fns {
			for _, c := range e.callees[fn] {
				if c == fn {
					continue
				}
				// a callee with an explicit modifies/pure clause contributes only that
				if con := e.contractFor(c); con != nil && con.HasMod {
					if e.modset[fn].addAll(e.contractModComps(con, c)) {
						changed = true
					}
					continue
				}
				if e.modset[fn].addAll(e.modset[c]) {
					changed = true
				}
			}
		}
	}
}

func sigKey(s *types.Signature) string {
	return types.TypeString(types.NewSignatureType(nil, nil, nil, s.Params(), s.Results(), s.Variadic()), nil)
}

// possibleCallees resolves a call to the functions (with bodies) it may reach.
func (e *Engine) possibleCallees(c *ssa.CallCommon) []*ssa.Function {
	if c.IsInvoke() {
		return e.implementations(c.Value.Type(), c.Method)
	}
	if f := c.StaticCallee(); f != nil {
		if f.Blocks != nil {
			return []*ssa.Function{f}
		}
		return nil
	}
	if _, ok := c.Value.(*ssa.Builtin); ok {
		return nil
	}
	sig, ok := c.Value.Type().Underlying().(*types.Signature)
	if !ok {
		return nil
	}
	return e.bySig[sigKey(sig)]
}

// implementations: CHA over the loaded packages.
func (e *Engine) implementations(iface types.Type, m *types.Func) []*ssa.Function {
	it, ok := iface.Underlying().(*types.Interface)
	if !ok {
		return nil
	}
	key := typeKey(iface) + "." + m.Name()
	if r, ok := e.implCache[key]; ok {
		return r
	}
	var out []*ssa.Function
	for _, t := range e.namedTypes {
		for _, cand := range []types.Type{t, types.NewPointer(t)} {
			if types.IsInterface(cand) {
				continue
			}
			if !types.Implements(cand, it) {
				continue
			}
			sel := e.prog.MethodSets.MethodSet(cand).Lookup(m.Pkg(), m.Name())
			if sel == nil {
				continue
			}
			if fn := e.prog.MethodValue(sel); fn != nil && fn.Blocks != nil {
				out = append(out, fn)
			}
		}
	}
	e.implCache[key] = out
	return out
}

// externArgWrites: a callee without a body may write through pointer/slice
// arguments (shallowly).
func (e *Engine) externArgWrites(c *ssa.CallCommon, out compSet) {
	if c.IsInvoke() {
		return
	}
	if _, ok := c.Value.(*ssa.Builtin); ok {
		return
	}
	f := c.StaticCallee()
	if f == nil || f.Blocks != nil {
		return
	}
	if e.effectFree(f) {
		return
	}
	if con := e.contractFor(f); con != nil && con.HasMod {
		out.addAll(e.contractModComps(con, f))
		return
	}
	for _, a := range c.Args {
		argWriteComps(a, out)
	}
}

func argWriteComps(a ssa.Value, out compSet) {
	switch t := a.Type().Underlying().(type) {
	case *types.Pointer:
		if _, isConst := a.(*ssa.Const); isConst {
			return
		}
		addrComps(a, out)
	case *types.Slice:
		if isStruct(t.Elem()) {
			compsOfStore(t.Elem(), "", out)
		} else {
			out.add(sComp{Name: elemComp(t.Elem()), Kind: scElems, T: t.Elem()})
		}
	}
}

// instrWrites: components an instruction may write, including through calls.
func (e *Engine) instrWrites(in ssa.Instruction, g *Gen) []string {
	ms := compSet{}
	directWrites(in, ms)
	var cc *ssa.CallCommon
	switch x := in.(type) {
	case *ssa.Call:
		cc = &x.Call
	case *ssa.Defer:
		cc = &x.Call
	case *ssa.Go:
		cc = &x.Call
	}
	if cc != nil {
		ms.addAll(e.callMods(cc))
	}
	var out []string
	for _, name := range sortedKeys(ms) {
		g.materialize(ms[name])
		out = append(out, name)
	}
	return out
}

// callMods: whole components a call may write (used where no precise frame applies).
func (e *Engine) callMods(cc *ssa.CallCommon) compSet {
	ms := compSet{}
	if cc.IsInvoke() {
		if con := e.ifaceContract(cc); con != nil && con.HasMod {
			ms.addAll(e.contractModCompsSig(con, cc.Signature(), true))
			return ms
		}
	}
	if gc := e.namedDynContract(cc); gc != nil && gc.HasMod {
		env := map[string]types.Type{}
		for i, a := range cc.Args {
			if i < len(gc.Params) {
				env[gc.Params[i]] = a.Type()
			}
		}
		ms.addAll(e.modCompsEnv(gc, env))
		return ms
	}
	if ftc := e.funcTypeContract(cc); ftc != nil && ftc.HasMod {
		env := map[string]types.Type{}
		if len(ftc.Params) > 0 {
			env[ftc.Params[0]] = cc.Value.Type()
		}
		ms.addAll(e.modCompsEnv(ftc, env))
		return ms
	}
	for _, f := range e.possibleCallees(cc) {
		if con := e.contractFor(f); con != nil && con.HasMod {
			ms.addAll(e.contractModComps(con, f))
			continue
		}
		ms.addAll(e.modset[f])
	}
	e.externArgWrites(cc, ms)
	return ms
}
