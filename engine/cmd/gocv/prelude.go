package main

// Spec preludes (/verif/spec/*.smt2).
//
// A prelude is SMT-LIB text.  Recursive spec functions are written once, as
// define-fun-rec, and used in two ways:
//   * lemma proofs (spec/*.lemmas.smt2) see the real recursive definition;
//   * verification conditions see the function as UNINTERPRETED, plus an
//     "unfold_<f>" macro that states one definitional unfolding.  A contract
//     instantiates unfoldings and proved lemmas explicitly with //verif:hint
//     (the solver is never asked to do induction).
// A line ";!auto <lemma> :pattern (<terms>)" turns a lemma macro (a define-fun
// returning Bool that has a proof in the lemmas file) into a quantified axiom
// with the given trigger.

import (
	"fmt"
	"strings"
)

type sexp struct {
	atom string
	list []*sexp
	isList bool
}

func (s *sexp) String() string {
	if !s.isList {
		return s.atom
	}
	var parts []string
	for _, x := range s.list {
		parts = append(parts, x.String())
	}
	return "(" + strings.Join(parts, " ") + ")"
}

// parseSexps parses top-level forms; comments are returned separately in order.
type topForm struct {
	comment string
	form    *sexp
}

func parseTop(src string) ([]topForm, error) {
	var out []topForm
	i := 0
	n := len(src)
	var parse func() (*sexp, error)
	skipWS := func() {
		for i < n && (src[i] == ' ' || src[i] == '\t' || src[i] == '\n' || src[i] == '\r') {
			i++
		}
	}
	parse = func() (*sexp, error) {
		skipWS()
		if i >= n {
			return nil, fmt.Errorf("unexpected end")
		}
		if src[i] == ';' {
			for i < n && src[i] != '\n' {
				i++
			}
			return parse()
		}
		if src[i] == '(' {
			i++
			s := &sexp{isList: true}
			for {
				skipWS()
				if i >= n {
					return nil, fmt.Errorf("unbalanced parentheses")
				}
				if src[i] == ';' {
					for i < n && src[i] != '\n' {
						i++
					}
					continue
				}
				if src[i] == ')' {
					i++
					return s, nil
				}
				c, err := parse()
				if err != nil {
					return nil, err
				}
				s.list = append(s.list, c)
			}
		}
		j := i
		if src[i] == '|' {
			j++
			for j < n && src[j] != '|' {
				j++
			}
			j++
		} else if src[i] == '"' {
			j++
			for j < n && src[j] != '"' {
				j++
			}
			j++
		} else {
			for j < n && !strings.ContainsRune(" \t\n\r()", rune(src[j])) {
				j++
			}
		}
		a := src[i:j]
		i = j
		return &sexp{atom: a}, nil
	}
	for {
		skipWS()
		if i >= n {
			break
		}
		if src[i] == ';' {
			j := i
			for j < n && src[j] != '\n' {
				j++
			}
			out = append(out, topForm{comment: src[i:j]})
			i = j
			continue
		}
		f, err := parse()
		if err != nil {
			return nil, err
		}
		out = append(out, topForm{form: f})
	}
	return out, nil
}

type Prelude struct {
	VCText   string            // text for verification conditions
	RecText  string            // text with the real recursive definitions (lemma proofs)
	Lemmas   map[string]bool   // lemma_* macros defined
	Unfolds  map[string]bool   // unfold_* macros generated
	Autos    []string          // lemma names turned into axioms
	AutoAx   map[string]string // lemma name -> axiom text (asserted in VCs only when the lemma is proved in the same run)
}

func BuildPrelude(src string) (*Prelude, error) {
	forms, err := parseTop(src)
	if err != nil {
		return nil, err
	}
	p := &Prelude{Lemmas: map[string]bool{}, Unfolds: map[string]bool{}, AutoAx: map[string]string{}}
	var vc, rec strings.Builder
	defs := map[string]*sexp{}
	for _, tf := range forms {
		if tf.form == nil {
			c := tf.comment
			if strings.HasPrefix(c, ";!auto ") {
				rest := strings.TrimSpace(strings.TrimPrefix(c, ";!auto "))
				name := rest
				pat := ""
				if j := strings.Index(rest, " "); j >= 0 {
					name = rest[:j]
					pat = strings.TrimSpace(rest[j+1:])
				}
				d, ok := defs[name]
				if !ok {
					return nil, fmt.Errorf(";!auto %s: lemma macro not defined above", name)
				}
				params := d.list[2]
				var args []string
				for _, pr := range params.list {
					args = append(args, pr.list[0].atom)
				}
				body := "(" + name + " " + strings.Join(args, " ") + ")"
				if pat != "" {
					body = "(! " + body + " " + pat + ")"
				}
				ax := fmt.Sprintf("(assert (forall %s %s))\n", params.String(), body)
				p.AutoAx[name] += ax
				p.Autos = append(p.Autos, name)
			}
			continue
		}
		f := tf.form
		txt := f.String() + "\n"
		if f.isList && len(f.list) >= 5 && f.list[0].atom == "define-fun-rec" {
			name := f.list[1].atom
			params := f.list[2]
			var sorts, args []string
			for _, pr := range params.list {
				sorts = append(sorts, pr.list[1].String())
				args = append(args, pr.list[0].atom)
			}
			rec.WriteString(txt)
			vc.WriteString(fmt.Sprintf("(declare-fun %s (%s) %s)\n", name, strings.Join(sorts, " "), f.list[3].String()))
			un := fmt.Sprintf("(define-fun unfold_%s %s Bool (= (%s %s) %s))\n", name, params.String(), name, strings.Join(args, " "), f.list[4].String())
			vc.WriteString(un)
			rec.WriteString(un)
			p.Unfolds["unfold_"+name] = true
			continue
		}
		if f.isList && len(f.list) >= 5 && f.list[0].atom == "define-fun" {
			name := f.list[1].atom
			defs[name] = f
			if strings.HasPrefix(name, "lemma_") {
				p.Lemmas[name] = true
			}
		}
		vc.WriteString(txt)
		rec.WriteString(txt)
	}
	p.VCText = vc.String()
	p.RecText = rec.String()
	return p, nil
}

// LemmaProofs: a lemmas file is a sequence of blocks
//   ;!lemma <name> [<part>]
//   <smt commands ending in (check-sat)>
// each of which must be unsat on top of the recursive prelude.
type LemmaProof struct {
	Name string
	Part string
	Text string
}

func ParseLemmaFile(src string) []LemmaProof {
	var out []LemmaProof
	var cur *LemmaProof
	for _, l := range strings.Split(src, "\n") {
		if strings.HasPrefix(l, ";!lemma ") {
			f := strings.Fields(strings.TrimPrefix(l, ";!lemma "))
			lp := LemmaProof{Name: f[0]}
			if len(f) > 1 {
				lp.Part = f[1]
			}
			out = append(out, lp)
			cur = &out[len(out)-1]
			continue
		}
		if cur != nil {
			cur.Text += l + "\n"
		}
	}
	return out
}
