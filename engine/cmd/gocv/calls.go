package main

import (
	"fmt"
	"go/token"
	"go/types"
	"strings"

	"golang.org/x/tools/go/ssa"
)

// callNames lists the names a call can be selected by.
func callNames(c *ssa.CallCommon) []string {
	var out []string
	add := func(s string) {
		if s == "" {
			return
		}
		for _, x := range out {
			if x == s {
				return
			}
		}
		out = append(out, s)
	}
	if c.IsInvoke() {
		tn := typeShort(c.Value.Type())
		add(tn + "." + c.Method.Name())
		if i := strings.LastIndex(tn, "."); i >= 0 {
			add(tn[i+1:] + "." + c.Method.Name())
		}
		add("$invoke." + c.Method.Name())
		return out
	}
	if b, ok := c.Value.(*ssa.Builtin); ok {
		add("builtin." + b.Name())
		return out
	}
	if f := c.StaticCallee(); f != nil {
		for _, n := range funcNames(f) {
			add(n)
		}
		// method on a struct field: also selectable as "<name>@<field>"
		if f.Signature.Recv() != nil && len(c.Args) > 0 {
			if fa, ok := c.Args[0].(*ssa.FieldAddr); ok {
				st := fa.X.Type().Underlying().(*types.Pointer).Elem().Underlying().(*types.Struct)
				ns := funcNames(f)
				add(ns[0] + "@" + st.Field(fa.Field).Name())
			}
		}
		return out
	}
	// dynamic call through a value
	switch v := c.Value.(type) {
	case *ssa.UnOp:
		if fa, ok := v.X.(*ssa.FieldAddr); ok {
			st := fa.X.Type().Underlying().(*types.Pointer).Elem().Underlying().(*types.Struct)
			add("$field." + st.Field(fa.Field).Name())
		}
		if fv, ok := v.X.(*ssa.FreeVar); ok {
			add("$var." + fv.Name())
		}
		if gl, ok := v.X.(*ssa.Global); ok {
			add("$global." + gl.Name())
			if gl.Pkg != nil {
				add("$global." + gl.Pkg.Pkg.Name() + "." + gl.Name())
			}
		}
	case *ssa.Parameter:
		add("$var." + v.Name())
	case *ssa.FreeVar:
		add("$var." + v.Name())
	case *ssa.Field:
		st := v.X.Type().Underlying().(*types.Struct)
		add("$field." + st.Field(v.Field).Name())
	case *ssa.Extract:
		if call, ok := v.Tuple.(*ssa.Call); ok {
			if f := call.Call.StaticCallee(); f != nil {
				ns := funcNames(f)
				n := ns[0]
				if len(ns) > 1 {
					n = ns[1]
				}
				add(fmt.Sprintf("$result.%s.%d", n, v.Index))
			}
		}
		add("$dynamic")
	case *ssa.Call:
		if f := v.Call.StaticCallee(); f != nil {
			ns := funcNames(f)
			n := ns[0]
			if len(ns) > 1 {
				n = ns[1]
			}
			add(fmt.Sprintf("$result.%s.0", n))
		}
		add("$dynamic")
	case *ssa.Phi:
		add("$dynamic")
	}
	if len(out) == 0 {
		add("$dynamic")
	}
	return out
}

func typeShort(t types.Type) string {
	return types.TypeString(t, func(p *types.Package) string { return p.Name() })
}

// funcNames: the names a function is known by in selectors and contract keys.
func funcNames(f *ssa.Function) []string {
	var out []string
	if f.Parent() != nil {
		// anonymous function: parent's names + "$n"
		for _, pn := range funcNames(f.Parent()) {
			out = append(out, pn+strings.TrimPrefix(f.Name(), f.Parent().Name()))
		}
		return out
	}
	pkg := ""
	pkgPath := ""
	if f.Pkg != nil {
		pkg = f.Pkg.Pkg.Name()
		pkgPath = f.Pkg.Pkg.Path()
	} else if o := f.Object(); o != nil && o.Pkg() != nil {
		pkg = o.Pkg().Name()
		pkgPath = o.Pkg().Path()
	}
	if recv := f.Signature.Recv(); recv != nil {
		rt := recv.Type()
		ptr := false
		if p, ok := rt.(*types.Pointer); ok {
			rt = p.Elem()
			ptr = true
		}
		tn := typeShort(rt) // pkg.T or pkg.T[args]
		// strip type arguments first (they contain dots and brackets)
		if i := strings.Index(tn, "["); i >= 0 {
			tn = tn[:i]
		}
		bare := tn
		if i := strings.LastIndex(tn, "."); i >= 0 {
			bare = tn[i+1:]
		}
		if ptr {
			out = append(out, "(*"+bare+")."+f.Name(), pkg+".(*"+bare+")."+f.Name(), pkgPath+".(*"+bare+")."+f.Name())
		} else {
			out = append(out, "("+bare+")."+f.Name(), pkg+".("+bare+")."+f.Name(), pkgPath+".("+bare+")."+f.Name())
		}
		out = append(out, bare+"."+f.Name(), pkg+"."+bare+"."+f.Name())
		return out
	}
	name := f.Name()
	if i := strings.Index(name, "["); i >= 0 {
		name = name[:i]
	}
	out = append(out, name, pkg+"."+name, pkgPath+"."+name)
	return out
}

func callName(c *ssa.CallCommon) string {
	n := callNames(c)
	if len(n) == 0 {
		return "?"
	}
	if len(n) > 1 && !c.IsInvoke() {
		return n[1]
	}
	return n[0]
}

// errorResult returns the value of the trailing error result, if any.
func errorResult(res *Val) *Val {
	if res == nil {
		return nil
	}
	isErr := func(t types.Type) bool {
		return t != nil && types.Identical(t, types.Universe.Lookup("error").Type())
	}
	if res.Tuple != nil {
		last := res.Tuple[len(res.Tuple)-1]
		if isErr(last.Ty) {
			return last
		}
		return nil
	}
	if isErr(res.Ty) {
		return res
	}
	return nil
}

// noteCall updates the call-history ghosts for tracked selectors.
func (g *Gen) noteCall(c *ssa.CallCommon, in ssa.Instruction, res *Val, prefix string) {
	for _, name := range callNames(c) {
		name = prefix + name
		if !g.selectors[name] {
			continue
		}
		s := g.cur
		s.ghost["$called:"+name] = "true"
		g.ghostSorts["$called:"+name] = "Bool"
		g.ghostSorts["$ok:"+name] = "Bool"
		if er := errorResult(res); er != nil {
			s.ghost["$ok:"+name] = eq(er.T, "0")
			g.ghostSorts["$allok:"+name] = "Bool"
			s.ghost["$allok:"+name] = and(g.allokTerm(s, name), eq(er.T, "0"))
		} else {
			s.ghost["$ok:"+name] = "true"
		}
		s.ghost["$count:"+name] = sx("+", g.ghostTerm(s, "$count:"+name), "1")
		for _, sn := range g.sinces {
			gn := "$since:" + sn[0] + "|" + sn[1]
			if sn[1] == name {
				s.ghost[gn] = "0"
			} else if sn[0] == name {
				s.ghost[gn] = sx("+", g.ghostTerm(s, gn), "1")
			}
		}
		for i, a := range c.Args {
			gn := fmt.Sprintf("$arg:%s:%d", name, i)
			if _, want := g.ghostSorts[gn]; !want {
				continue
			}
			if av := g.val(a); av != nil && av.T != "" {
				s.ghost[gn] = av.T
			}
		}
		if res != nil {
			rs := res.Tuple
			if rs == nil && res.T != "" {
				rs = []*Val{res}
			}
			for i, r := range rs {
				if r.T == "" || r.Ty == nil {
					continue
				}
				if sn := fmt.Sprintf("$sumlen:%s:%d", name, i); g.sumlenWanted[sn] {
					// sumlen(sel, i): total length of the i-th (slice) result over all calls
					if _, ok := r.Ty.Underlying().(*types.Slice); ok {
						s.ghost[sn] = sx("+", g.ghostTerm(s, sn), sx("sl-len", r.T))
					}
				}
				gn := fmt.Sprintf("$res:%s:%d", name, i)
				g.ghostSorts[gn] = g.st.sortOf(r.Ty)
				if g.ghostTypes == nil {
					g.ghostTypes = map[string]types.Type{}
				}
				g.ghostTypes[gn] = r.Ty
				s.ghost[gn] = r.T
			}
		}
	}
}

// checkCallSpecs emits the call-site obligations of the current contract.
func (g *Gen) checkCallSpecs(c *ssa.CallCommon, in ssa.Instruction, recv *Val, args []*Val, prefix string) {
	if g.con == nil {
		return
	}
	names := callNames(c)
	for _, cs := range g.con.Calls {
		match := false
		for _, n := range names {
			if prefix+n == cs.Sel {
				match = true
			}
		}
		if !match {
			continue
		}
		g.callSelCount[cs.Sel]++
		env := map[string]*Val{}
		for k, v := range g.env {
			env[k] = v
		}
		for i, a := range args {
			env[fmt.Sprintf("arg%d", i)] = a
		}
		if recv != nil {
			env["recv"] = recv
		}
		label := cs.Cl.Label
		if label == "" {
			label = cs.Sel
		}
		if cs.Never {
			f := "false"
			if cs.Cl.E != nil {
				sc := g.specCtx(env, g.cur, g.init)
				t, err := sc.evalBool(cs.Cl.E)
				if err != nil {
					g.fail("never %s: %v", cs.Cl.Src, err)
				}
				f = not(t)
			}
			g.oblige("call", label, f, g.pos(in), cs.Cl.Src)
			continue
		}
		sc := g.specCtx(env, g.cur, g.init)
		t, err := sc.evalBool(cs.Cl.E)
		if err != nil {
			g.fail("call %s requires %s: %v", cs.Sel, cs.Cl.Src, err)
		}
		g.oblige("call", label, t, g.pos(in), "call "+cs.Sel+" requires "+cs.Cl.Src)
	}
}

func (g *Gen) execCall(c *ssa.CallCommon, in ssa.Instruction, rt types.Type) *Val {
	return g.execCallPrefixed(c, in, rt, "")
}

func (g *Gen) execCallPrefixed(c *ssa.CallCommon, in ssa.Instruction, rt types.Type, prefix string) *Val {
	var args []*Val
	for _, a := range c.Args {
		args = append(args, g.val(a))
	}
	var recv *Val
	if c.IsInvoke() {
		recv = g.val(c.Value)
	}
	g.checkCallSpecs(c, in, recv, args, prefix)
	g.takeSnapshots(c, prefix)

	// assumed call frames (//verif:call-preserves): remember the pre-call values
	type saved struct {
		t   frameTarget
		val string
	}
	var keep []saved
	if g.con != nil && !isBuiltin(c) {
		names := callNames(c)
		for _, psp := range g.con.Preserves {
			match := false
			for _, n := range names {
				if prefix+n == psp.Sel {
					match = true
				}
			}
			if !match {
				continue
			}
			g.callSelCount["preserves:"+psp.Sel]++
			g.assumptions = appendUnique(g.assumptions, fmt.Sprintf("%s: assumed frame at calls of %s (%s) because %q", g.fnName, psp.Sel, psp.Src, psp.Reason))
			sc := g.specCtx(g.env, g.cur, g.init)
			for _, te := range psp.Targets {
				ts, err := sc.lvalTargets(te)
				if err != nil {
					g.fail("call-preserves %s: %v", te, err)
				}
				for _, t := range ts {
					h := g.heapTerm(g.cur, t.Comp)
					v := sel(h, t.Ref)
					if t.Idx != "" {
						v = sel(v, t.Idx)
					}
					nm := g.freshConst("keep", sortOfTarget(g, t))
					g.assert(eq(nm, v))
					keep = append(keep, saved{t, nm})
				}
			}
		}
	}
	before := map[string]string{}
	for _, k := range keep {
		before[k.t.Comp] = g.heapTerm(g.cur, k.t.Comp)
	}
	var res *Val
	switch {
	case isBuiltin(c):
		res = g.execBuiltin(c, in, args, rt)
	default:
		res = g.execUserCall(c, in, recv, args, rt)
	}
	changed := map[string]bool{}
	for comp, h := range before {
		changed[comp] = g.heapTerm(g.cur, comp) != h
	}
	for _, k := range keep {
		if !changed[k.t.Comp] {
			continue
		}
		h := g.heapTerm(g.cur, k.t.Comp)
		if k.t.Idx != "" {
			g.setHeap(g.cur, k.t.Comp, store(h, k.t.Ref, store(sel(h, k.t.Ref), k.t.Idx, k.val)))
		} else {
			g.setHeap(g.cur, k.t.Comp, store(h, k.t.Ref, k.val))
		}
	}
	g.applyMonitors(c)
	g.noteCall(c, in, res, prefix)
	return res
}

// applyMonitors: after acquiring a mutex field named in a //verif:monitor clause,
// the guarded fields of the same object hold arbitrary values.
func (g *Gen) applyMonitors(c *ssa.CallCommon) {
	if g.con == nil || len(g.con.Monitors) == 0 {
		return
	}
	names := callNames(c)
	for _, m := range g.con.Monitors {
		if m.Call == "" {
			continue
		}
		match := false
		for _, n := range names {
			if n == m.Call {
				match = true
			}
		}
		if !match {
			continue
		}
		sc := g.specCtx(g.env, g.cur, g.init)
		for _, te := range m.Targets {
			g.havocLval(sc, te)
		}
		g.assumptions = appendUnique(g.assumptions, fmt.Sprintf("%s: interference at %s is limited to the listed locations (other goroutines follow the locking discipline)", g.fnName, m.Call))
	}
	if c.IsInvoke() || len(c.Args) == 0 {
		return
	}
	f := c.StaticCallee()
	if f == nil || (f.Name() != "Lock" && f.Name() != "RLock") {
		return
	}
	mname, base := fieldNameOfAddr(c.Args[0])
	if mname == "" {
		return
	}
	for _, m := range g.con.Monitors {
		if m.Call != "" || m.Mutex != mname {
			continue
		}
		st := base.Type().Underlying().(*types.Pointer).Elem()
		u := st.Underlying().(*types.Struct)
		ref := g.val(base).T
		for _, fn := range m.Fields {
			idx, _, _ := findField(u, fn)
			if idx < 0 {
				g.fail("monitor: type %s has no field %s", typeKey(st), fn)
			}
			loc, sub, ft := g.fieldOf(ref, st, idx)
			if sub != "" {
				g.fail("monitor: guarded field %s must be a scalar field", fn)
			}
			hv := g.havocVal(ft, "mon."+fn)
			g.writeLoc(g.cur, loc, hv.T)
		}
		g.assumptions = appendUnique(g.assumptions, fmt.Sprintf("%s: fields %v are only accessed while holding .%s (monitor discipline assumed for other goroutines)", g.fnName, m.Fields, m.Mutex))
	}
}

func isBuiltin(c *ssa.CallCommon) bool {
	_, ok := c.Value.(*ssa.Builtin)
	return ok && !c.IsInvoke()
}

func (g *Gen) execUserCall(c *ssa.CallCommon, in ssa.Instruction, recv *Val, args []*Val, rt types.Type) *Val {
	e := g.eng
	callee := c.StaticCallee()
	var con *Contract
	var all []*Val
	if c.IsInvoke() {
		con = e.ifaceContract(c)
		all = append([]*Val{recv}, args...)
	} else if gc := e.namedDynContract(c); gc != nil {
		con = gc
		all = args
	} else if ftc := e.funcTypeContract(c); ftc != nil {
		fv := g.val(c.Value)
		g.oblige("nilcall", "", sx("distinct", fv.T, "0"), g.pos(in), "call of a nil function value")
		con = ftc
		all = append([]*Val{fv}, args...)
	} else {
		all = args
		if callee != nil {
			con = e.contractFor(callee)
			// closures: bindings come first
			if cv := g.val(c.Value); cv != nil && len(cv.Binds) > 0 {
				all = append(append([]*Val{}, cv.Binds...), args...)
			}
		}
	}
	if con != nil {
		return g.applyContract(con, c, in, all, rt)
	}
	if callee == nil && !c.IsInvoke() {
		for _, n := range callNames(c) {
			if e.effectFreeFn[n] {
				res := g.havocVal(rt, "r."+sanitize(n))
				if e.nonNilResult[n] && res.Tuple == nil && res.T != "" {
					g.assume(sx("distinct", res.T, "0"))
				}
				return res
			}
		}
	}
	if callee == nil && !c.IsInvoke() {
		g.oblige("nilcall", "", sx("distinct", g.val(c.Value).T, "0"), g.pos(in), "call of a nil function value")
	}
	// no contract: havoc what the callee may write
	if callee != nil && e.effectFree(callee) {
		before := g.ghostTerm(g.cur, "$brk")
		isFresh := false
		for _, n := range funcNames(callee) {
			if e.freshResult[n] {
				isFresh = true
			}
		}
		if isFresh {
			g.bumpBrk()
		}
		res := g.havocVal(rt, "r."+shortName(callee))
		g.knownResultFacts(callee, args, res)
		if isFresh && res.Tuple == nil && res.T != "" {
			g.assume(sx(">=", res.T, before))
		}
		return res
	}
	if callee != nil && !c.IsInvoke() && g.canInline(callee) {
		return g.inlineCall(callee, all, rt)
	}
	s := g.cur
	mods := e.callMods(c)
	for _, name := range sortedKeys(mods) {
		g.materialize(mods[name])
		s.heap[name] = g.newHeapVersion(name)
	}
	g.bumpBrk()
	hint := "call"
	if callee != nil {
		hint = "r." + shortName(callee)
	} else if c.IsInvoke() {
		hint = "r." + c.Method.Name()
	}
	res := g.havocVal(rt, hint)
	if callee != nil {
		g.knownResultFacts(callee, args, res)
	}
	return res
}

func shortName(f *ssa.Function) string {
	n := funcNames(f)
	return n[0]
}

func (g *Gen) bumpBrk() {
	nb := g.freshConst("g.brk", "Int")
	g.assume(sx(">=", nb, g.ghostTerm(g.cur, "$brk")))
	g.cur.ghost["$brk"] = nb
}

// knownResultFacts: facts about results of well-known constructors of errors.
func (g *Gen) knownResultFacts(f *ssa.Function, args []*Val, res *Val) {
	for _, n := range funcNames(f) {
		if g.eng.nonNilResult[n] {
			if res.Tuple == nil && res.T != "" {
				g.assume(sx("distinct", res.T, "0"))
			}
		}
	}
}

// applyContract uses a callee's contract at a call site.
func (g *Gen) applyContract(con *Contract, c *ssa.CallCommon, in ssa.Instruction, all []*Val, rt types.Type) *Val {
	env := map[string]*Val{}
	if len(con.Params) > len(all) {
		g.fail("contract %s names %d parameters, call passes %d", con.Key, len(con.Params), len(all))
	}
	bound := false
	if callee := c.StaticCallee(); callee != nil && !c.IsInvoke() && len(callee.FreeVars)+len(callee.Params) == len(all) && e2contractIsFor(con, callee, g.eng) {
		// same name-first binding as when the callee itself is verified
		for i, n := range contractBinding(callee, con.Params) {
			if n != "" && n != "_" {
				env[n] = all[i]
			}
		}
		bound = true
	}
	if !bound {
		for i, n := range con.Params {
			if n != "_" {
				env[n] = all[i]
			}
		}
	}
	pre := g.cur.clone()
	short := con.Key
	sc := g.specCtx(env, g.cur, g.cur)
	sc.callee = true
	for i, cl := range con.Requires {
		t, err := sc.evalBool(cl.E)
		if err != nil {
			g.fail("callee %s requires %s: %v", con.Key, cl.Src, err)
		}
		label := cl.Label
		if label == "" {
			label = fmt.Sprintf("%d", i)
		}
		g.oblige("pre", short+":"+label, t, g.pos(in), "precondition of "+con.Key+": "+cl.Src)
		g.assume(t)
	}
	// allocation watermark first (results may be fresh objects), then results: a
	// modifies clause may name them (e.g. a freshly returned object)
	if !con.Pure {
		g.bumpBrk()
	}
	res := g.havocVal(rt, "r."+sanitize(short))
	var results []*Val
	if res.Tuple != nil {
		results = res.Tuple
	} else if rt != nil {
		if tup, ok := rt.(*types.Tuple); !ok || tup.Len() > 0 {
			results = []*Val{res}
		}
	}
	for i, n := range con.Results {
		if i < len(results) && n != "_" {
			env[n] = results[i]
		}
	}
	s := g.cur
	switch {
	case con.Pure:
	case con.HasMod:
		msc := g.specCtx(env, g.cur, g.cur)
		msc.callee = true
		for _, m := range con.Modifies {
			g.havocLval(msc, m)
		}
	default:
		mods := g.eng.callMods(c)
		for _, name := range sortedKeys(mods) {
			g.materialize(mods[name])
			s.heap[name] = g.newHeapVersion(name)
		}
	}
	post := g.specCtx(env, g.cur, pre)
	post.brkBefore = g.ghostTerm(pre, "$brk")
	post.callee = true
	for _, cl := range con.Ensures {
		t, err := post.evalBool(cl.E)
		if err != nil {
			// the clause talks about the callee's internals (its locals or call
			// history): it is proved of the callee but not visible to callers
			continue
		}
		g.assume(t)
	}
	for _, ex := range con.Exports {
		for _, name := range callNames(c) {
			gn := fmt.Sprintf("$exp:%s:%s", name, ex.Label)
			if !g.exportWanted[gn] {
				continue
			}
			v, err := post.eval(ex.E)
			if err != nil {
				g.fail("export %s of %s: %v", ex.Label, con.Key, err)
			}
			g.cur.ghost[gn] = v.T
		}
	}
	if con.Trusted {
		g.assumptions = appendUnique(g.assumptions, "trusted contract: "+con.FullKey())
	} else if con.IsIface {
		g.assumptions = appendUnique(g.assumptions, "interface contract: "+con.FullKey())
	} else if con.IsFuncType {
		g.assumptions = appendUnique(g.assumptions, "function-type contract: "+con.FullKey())
	} else {
		g.assumptions = appendUnique(g.assumptions, "callee contract: "+con.FullKey())
	}
	return res
}

func appendUnique(l []string, s string) []string {
	for _, x := range l {
		if x == s {
			return l
		}
	}
	return append(l, s)
}

// havocLval havocs the location(s) denoted by a modifies expression.
func (g *Gen) havocLval(sc *SpecCtx, m *SExpr) {
	s := g.cur
	targets, err := sc.lvalTargets(m)
	if err != nil {
		g.fail("modifies %s: %v", m, err)
	}
	for _, t := range targets {
		c := g.comps[t.Comp]
		h := g.heapTerm(s, t.Comp)
		if t.ElemBase != "" {
			n := g.newHeapVersion(t.Comp)
			g.assert(fmt.Sprintf("(forall ((r Int)) (! (=> %s (= (select %s r) (select %s r))) :pattern ((select %s r))))", t.outside("r"), n, h, n))
			s.heap[t.Comp] = n
			continue
		}
		if t.Idx != "" {
			inner := strings.TrimSuffix(strings.TrimPrefix(c.Sort, "(Array Int "), ")")
			fresh := g.freshConst("hv", inner)
			g.setHeap(s, t.Comp, store(h, t.Ref, store(sel(h, t.Ref), t.Idx, fresh)))
		} else {
			fresh := g.freshConst("hv", c.Sort)
			g.setHeap(s, t.Comp, store(h, t.Ref, fresh))
		}
	}
}

// ------------------------------------------------------------ defers

func (g *Gen) execRunDefers(x *ssa.RunDefers) {
	for k := len(g.defers) - 1; k >= 0; k-- {
		d := g.defers[k]
		flag := g.ghostTerm(g.cur, fmt.Sprintf("$defer:%s%d", g.inlinePrefix, k))
		if flag == "false" {
			continue
		}
		pre := g.cur
		saveGuard := g.curGuard
		g.cur = pre.clone()
		g.curGuard = and(saveGuard, flag)
		g.execCallPrefixed(&d.Call, d, d.Call.Signature().Results(), "")
		post := g.cur
		g.curGuard = saveGuard
		if flag == "true" {
			g.cur = post
			continue
		}
		g.cur = g.mergeStates(g.curBlock, []inEdge{{flag, post}, {"true", pre}})
	}
	if g.inlinePrefix != "" {
		// the flags of an inlined call are dead once its defers have run (so a loop in
		// the caller does not see them as written)
		g.cur = g.cur.clone()
		for k := range g.defers {
			delete(g.cur.ghost, fmt.Sprintf("$defer:%s%d", g.inlinePrefix, k))
		}
	}
}

// ------------------------------------------------------------ frame

type frameTarget struct {
	Comp string
	Ref  string
	Idx  string
	// ElemBase: every element of the array of structs with this base (s[*].F)
	ElemBase string
}

// outside: the reference fr is not covered by the (whole-location) target t.
func (t frameTarget) outside(fr string) string {
	if t.ElemBase != "" {
		return not(and(eq(sx("refkind", fr), "2"), eq(sx("elem-base", fr), t.ElemBase)))
	}
	return sx("distinct", fr, t.Ref)
}

// frameTargets evaluates the modifies clause in the entry state.
func (g *Gen) frameTargets() map[string][]frameTarget {
	if g.allowedTargets != nil {
		return g.allowedTargets
	}
	g.allowedTargets = g.frameTargetsEnv(g.env, true)
	return g.allowedTargets
}

// frameTargetsEnv: with skipResults, clauses that mention a result name are
// left out (inside loops the results do not exist yet).
func (g *Gen) frameTargetsEnv(env map[string]*Val, skipResults bool) map[string][]frameTarget {
	allowed := map[string][]frameTarget{}
	sc := g.specCtx(env, g.init, g.init)
	for _, m := range g.con.Modifies {
		if skipResults && mentionsAny(m, g.con.Results) {
			continue
		}
		ts, err := sc.lvalTargets(m)
		if err != nil {
			g.fail("modifies %s: %v", m, err)
		}
		for _, t := range ts {
			allowed[t.Comp] = append(allowed[t.Comp], t)
		}
	}
	return allowed
}

func mentionsAny(e *SExpr, names []string) bool {
	if e == nil {
		return false
	}
	if e.Kind == SIdent {
		for _, n := range names {
			if n == e.Name {
				return true
			}
		}
	}
	if mentionsAny(e.X, names) || mentionsAny(e.Y, names) || mentionsAny(e.Lo, names) || mentionsAny(e.Hi, names) {
		return true
	}
	for _, a := range e.Args {
		if mentionsAny(a, names) {
			return true
		}
	}
	return false
}

func (g *Gen) checkFrame(env map[string]*Val, pos token.Pos, site string) {
	allowed := g.frameTargetsEnv(env, false)
	var all []string
	var names []string
	for _, comp := range sortedKeys(g.cur.heap) {
		final := g.cur.heap[comp]
		initial := g.compConst(comp, "0")
		if final == initial {
			continue
		}
		fr := g.freshConst("fr", "Int")
		conds := []string{sx("<", sx("root", fr), "brk0")}
		var idxConds []string
		for _, t := range allowed[comp] {
			if t.Idx == "" {
				conds = append(conds, t.outside(fr))
			} else {
				idxConds = append(idxConds, and(eq(fr, t.Ref)), t.Idx)
			}
		}
		var f string
		if len(idxConds) == 0 {
			f = imp(and(conds...), eq(sel(final, fr), sel(initial, fr)))
		} else {
			j := g.freshConst("fj", "Int")
			var ex []string
			for i := 0; i < len(idxConds); i += 2 {
				ex = append(ex, not(and(idxConds[i], eq(j, idxConds[i+1]))))
			}
			f = imp(and(append(conds, ex...)...), eq(sel(sel(final, fr), j), sel(sel(initial, fr), j)))
		}
		all = append(all, f)
		names = append(names, comp)
	}
	if len(all) > 0 {
		// one obligation per return site: every changed component is unchanged
		// outside the declared locations (each conjunct has its own witness)
		g.oblige("frame", site, and(all...), pos, "modifies clause: unchanged outside the declared locations: "+strings.Join(names, ", "))
	}
}

func sortOfTarget(g *Gen, t frameTarget) string {
	c := g.comps[t.Comp]
	if t.Idx != "" {
		return strings.TrimSuffix(strings.TrimPrefix(c.Sort, "(Array Int "), ")")
	}
	return c.Sort
}

// allokTerm: "every call matching name so far returned a nil error" (true initially).
func (g *Gen) allokTerm(s *State, name string) string {
	if t, ok := s.ghost["$allok:"+name]; ok {
		return t
	}
	return "true"
}


// funcNamesObj: selector-style names of a method object ("(*T).M", "pkg.(*T).M").
func funcNamesObj(obj types.Object) []string {
	fn, ok := obj.(*types.Func)
	if !ok {
		return nil
	}
	sig, _ := fn.Type().(*types.Signature)
	if sig == nil || sig.Recv() == nil {
		return []string{fn.Name()}
	}
	rt := typeShort(sig.Recv().Type())
	bare := rt
	if i := strings.LastIndex(rt, "."); i >= 0 {
		bare = rt[i+1:]
		if strings.HasPrefix(rt, "*") {
			bare = "*" + bare
		}
	}
	return []string{"(" + bare + ")." + fn.Name(), "(" + rt + ")." + fn.Name()}
}


// e2contractIsFor: con is the (non-interface, non-functype) contract of callee itself.
func e2contractIsFor(con *Contract, callee *ssa.Function, e *Engine) bool {
	return !con.IsIface && !con.IsFuncType && e.contractFor(callee) == con
}
