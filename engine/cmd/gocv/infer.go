package main

import (
	"fmt"
	"go/token"
	"go/types"
	"strings"

	"golang.org/x/tools/go/ssa"
)

// Inferred prefix invariants.
//
// For a loop with a counter p (step +1 or -1) and a branch condition C that holds on every
// path to every back edge, where C is a pure expression over p, values computed
// outside the loop and memory the loop does not write:
//
//     forall m in [entry(p), p): C[p := m]
//
// holds at the loop header.  It is inductive by construction: iteration number j went
// round the back edge only under C with p = entry+j, and nothing C reads has changed
// since.  The fact is ASSUMED at the header without a proof obligation (like the
// counter lock-step facts); the syntactic side conditions below are what makes that
// sound.  It is what a linear search needs ("everything before the cursor did not
// match"), so such loops keep verifying when they are rewritten between the range and
// the index form, or moved into a helper that has no contract of its own.

type prefixTr struct {
	g    *Gen
	li   *loopInfo
	phi  *ssa.Phi
	sub  ssa.Value // the value the quantified variable stands for (phi, or phi+c)
	env  map[string]*Val
	n    int
	uses int
}

const prefixVar = "qm"

func (t *prefixTr) invariantVal(v ssa.Value) *SExpr {
	val := t.g.val(v)
	if val == nil || val.T == "" {
		return nil
	}
	// a readable, collision-free name for the evidence: the SSA name of the value
	name := "$" + v.Name()
	if prev, ok := t.env[name]; ok && prev != val {
		t.n++
		name = fmt.Sprintf("%s#%d", name, t.n)
	}
	t.env[name] = val
	return &SExpr{Kind: SIdent, Name: name}
}

func (t *prefixTr) readsUnmodified(addr ssa.Value) bool {
	ms := compSet{}
	addrComps(addr, ms)
	for name := range ms {
		if t.li.modSet[name] {
			return false
		}
		if strings.HasPrefix(name, "local.") {
			// function-private memory: conservatively treated as written by the loop
			// (its components are renamed per inlined call)
			return false
		}
	}
	return true
}

func (t *prefixTr) tr(v ssa.Value, depth int) *SExpr {
	if depth > 12 {
		return nil
	}
	if v == t.sub {
		t.uses++
		return &SExpr{Kind: SIdent, Name: prefixVar}
	}
	if v == ssa.Value(t.phi) {
		return nil // mixed use of the counter and its successor: not handled
	}
	switch x := v.(type) {
	case *ssa.Const, *ssa.Parameter, *ssa.FreeVar, *ssa.Global, *ssa.Function:
		return t.invariantVal(v)
	case ssa.Instruction:
		if !t.li.blocks[x.Block()] {
			if _, ok := t.g.vals[v]; ok {
				return t.invariantVal(v)
			}
			return nil
		}
	}
	switch x := v.(type) {
	case *ssa.BinOp:
		op := ""
		switch x.Op {
		case token.ADD:
			op = "+"
		case token.SUB:
			op = "-"
		case token.EQL:
			op = "=="
		case token.NEQ:
			op = "!="
		case token.LSS:
			op = "<"
		case token.LEQ:
			op = "<="
		case token.GTR:
			op = ">"
		case token.GEQ:
			op = ">="
		default:
			return nil
		}
		bt, _ := x.X.Type().Underlying().(*types.Basic)
		switch x.Op {
		case token.EQL, token.NEQ:
			// comparable scalars only (strings are values of an uninterpreted sort of
			// their own in both the executor and the spec evaluator)
			if bt == nil {
				if _, isPtr := x.X.Type().Underlying().(*types.Pointer); !isPtr {
					return nil
				}
			}
		default:
			if bt == nil || bt.Info()&types.IsInteger == 0 {
				return nil
			}
		}
		a, b := t.tr(x.X, depth+1), t.tr(x.Y, depth+1)
		if a == nil || b == nil {
			return nil
		}
		return &SExpr{Kind: SBinary, Op: op, X: a, Y: b}
	case *ssa.UnOp:
		switch x.Op {
		case token.NOT:
			a := t.tr(x.X, depth+1)
			if a == nil {
				return nil
			}
			return &SExpr{Kind: SUnary, Op: "!", X: a}
		case token.MUL:
			switch a := x.X.(type) {
			case *ssa.IndexAddr:
				if _, isSlice := a.X.Type().Underlying().(*types.Slice); !isSlice {
					return nil
				}
				if isStruct(x.Type()) || !t.readsUnmodified(a) {
					return nil
				}
				s, i := t.tr(a.X, depth+1), t.tr(a.Index, depth+1)
				if s == nil || i == nil {
					return nil
				}
				return &SExpr{Kind: SIndex, X: s, Y: i}
			case *ssa.FieldAddr:
				if isStruct(x.Type()) || !t.readsUnmodified(a) {
					return nil
				}
				base := t.tr(a.X, depth+1)
				if base == nil {
					return nil
				}
				fname, _ := fieldNameOfAddr(a)
				return &SExpr{Kind: SField, X: base, Name: fname}
			}
		}
		return nil
	case *ssa.Call:
		if b, ok := x.Call.Value.(*ssa.Builtin); ok && b.Name() == "len" && len(x.Call.Args) == 1 {
			if _, isSlice := x.Call.Args[0].Type().Underlying().(*types.Slice); isSlice {
				a := t.tr(x.Call.Args[0], depth+1)
				if a == nil {
					return nil
				}
				return &SExpr{Kind: SCall, Name: "len", Args: []*SExpr{a}}
			}
		}
		return nil
	}
	return nil
}

type domCond struct {
	cond ssa.Value
	pol  bool
}

// backEdgeConds: the branch outcomes that hold on every path from the header to the
// back edge leaving q.
func backEdgeConds(li *loopInfo, q *ssa.BasicBlock) []domCond {
	var out []domCond
	if iff, ok := q.Instrs[len(q.Instrs)-1].(*ssa.If); ok && len(q.Succs) == 2 && q.Succs[0] != q.Succs[1] {
		for k, s := range q.Succs {
			if s == li.header {
				out = append(out, domCond{iff.Cond, k == 0})
			}
		}
	}
	for b := q; b != li.header && b != nil; b = b.Idom() {
		d := b.Idom()
		if d == nil || !li.blocks[d] {
			break
		}
		if iff, ok := d.Instrs[len(d.Instrs)-1].(*ssa.If); ok && len(b.Preds) == 1 && len(d.Succs) == 2 && d.Succs[0] != d.Succs[1] {
			if d.Succs[0] == b {
				out = append(out, domCond{iff.Cond, true})
			} else if d.Succs[1] == b {
				out = append(out, domCond{iff.Cond, false})
			}
		}
	}
	return out
}

func (g *Gen) inferPrefixInvariants(li *loopInfo, entryEnv map[string]*Val, names []string) {
	if len(li.backPreds) == 0 {
		return
	}
	// conditions common to all back edges
	var common []domCond
	for i, q := range li.backPreds {
		cs := backEdgeConds(li, q)
		if i == 0 {
			common = cs
			continue
		}
		var keep []domCond
		for _, c := range common {
			for _, d := range cs {
				if c == d {
					keep = append(keep, c)
				}
			}
		}
		common = keep
	}
	if len(common) == 0 {
		return
	}
	for pi, phi := range li.phis {
		step, ok := counterStep(li, phi)
		if !ok || (step != 1 && step != -1) || g.st.sortOf(phi.Type()) != "Int" {
			continue
		}
		ev := entryEnv[names[pi]]
		if ev == nil {
			continue
		}
		// the quantified variable stands for the counter's successor (preferred: the
		// condition then indexes with the bare variable) or for the counter itself
		var subs []ssa.Value
		var next ssa.Value
		same := true
		for _, q := range li.backPreds {
			for i, p := range li.header.Preds {
				if p == q {
					if next == nil {
						next = phi.Edges[i]
					} else if next != phi.Edges[i] {
						same = false
					}
				}
			}
		}
		if next != nil && same {
			subs = append(subs, next)
		}
		subs = append(subs, phi)
		for _, c := range common {
			for _, sub := range subs {
				t := &prefixTr{g: g, li: li, phi: phi, sub: sub, env: map[string]*Val{}}
				for k, v := range g.env {
					t.env[k] = v
				}
				body := t.tr(c.cond, 0)
				if body == nil || t.uses == 0 {
					continue
				}
				if !c.pol {
					body = &SExpr{Kind: SUnary, Op: "!", X: body}
				}
				// the values the counter (or its successor) had in the completed iterations
				lo, hi := ev.T, g.vals[phi].T
				if step == -1 {
					lo, hi = sx("+", g.vals[phi].T, "1"), sx("+", ev.T, "1")
				}
				if sub != ssa.Value(phi) {
					lo, hi = sx("+", lo, smtInt(step)), sx("+", hi, smtInt(step))
				}
				t.env["$lo"] = &Val{T: lo, Ty: intType}
				t.env["$hi"] = &Val{T: hi, Ty: intType}
				q := &SExpr{Kind: SQuant, Op: "forall", Name: prefixVar, Lo: &SExpr{Kind: SIdent, Name: "$lo"}, Hi: &SExpr{Kind: SIdent, Name: "$hi"}, X: body}
				sc := g.specCtx(t.env, g.cur, g.init)
				term, err := sc.evalBool(q)
				if err != nil {
					continue
				}
				g.assume(term)
				g.inferred = append(g.inferred, fmt.Sprintf("%s loop %d: forall %s in [entry, %s): %s", g.fnName, li.idx, prefixVar, names[pi], body))
				break
			}
		}
	}
}
