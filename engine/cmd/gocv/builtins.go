package main

import (
	"fmt"
	"go/types"

	"golang.org/x/tools/go/ssa"
)

func (g *Gen) execBuiltin(c *ssa.CallCommon, in ssa.Instruction, args []*Val, rt types.Type) *Val {
	b := c.Value.(*ssa.Builtin)
	s := g.cur
	mk := func(term string, t types.Type) *Val {
		n := g.freshConst("b."+b.Name(), g.st.sortOf(t))
		g.assert(eq(n, term))
		return &Val{T: n, Ty: t}
	}
	switch b.Name() {
	case "len":
		a := args[0]
		switch t := a.Ty.Underlying().(type) {
		case *types.Slice:
			return mk(sx("sl-len", a.T), rt)
		case *types.Basic:
			return mk(sx("strlen", a.T), rt)
		case *types.Map:
			mc := g.mapComps(t)
			v := mk(ite(eq(a.T, "0"), "0", sel(g.heapTerm(s, mc.length), a.T)), rt)
			g.assume(sx(">=", v.T, "0"))
			return v
		case *types.Array:
			return mk(intLit(t.Len()), rt)
		case *types.Pointer:
			if at, ok := t.Elem().Underlying().(*types.Array); ok {
				return mk(intLit(at.Len()), rt)
			}
		}
		v := g.havocVal(rt, "len")
		g.assume(sx(">=", v.T, "0"))
		return v
	case "cap":
		a := args[0]
		if _, ok := a.Ty.Underlying().(*types.Slice); ok {
			return mk(sx("sl-cap", a.T), rt)
		}
		v := g.havocVal(rt, "cap")
		g.assume(sx(">=", v.T, "0"))
		return v
	case "append":
		return g.execAppend(in, args, rt)
	case "copy":
		return g.execCopy(in, args, rt)
	case "delete":
		mt := args[0].Ty.Underlying().(*types.Map)
		mc := g.mapComps(mt)
		m, k := args[0].T, args[1].T
		hasArr := sel(g.heapTerm(s, mc.has), m)
		had := and(sx("distinct", m, "0"), sel(hasArr, k))
		ln := sel(g.heapTerm(s, mc.length), m)
		g.setHeap(s, mc.length, store(g.heapTerm(s, mc.length), m, ite(had, sx("-", ln, "1"), ln)))
		g.setHeap(s, mc.has, store(g.heapTerm(s, mc.has), m, store(hasArr, k, "false")))
		return &Val{Ty: rt}
	case "min", "max":
		op := "<="
		if b.Name() == "max" {
			op = ">="
		}
		t := args[0].T
		for _, a := range args[1:] {
			t = ite(sx(op, t, a.T), t, a.T)
		}
		return mk(t, rt)
	case "clear":
		switch t := args[0].Ty.Underlying().(type) {
		case *types.Map:
			mc := g.mapComps(t)
			m := args[0].T
			g.setHeap(s, mc.has, store(g.heapTerm(s, mc.has), m, sx("(as const (Array "+mc.ksort+" Bool))", "false")))
			g.setHeap(s, mc.length, store(g.heapTerm(s, mc.length), m, "0"))
		default:
			ms := compSet{}
			builtinWrites(c, ms)
			for _, name := range sortedKeys(ms) {
				g.materialize(ms[name])
				s.heap[name] = g.newHeapVersion(name)
			}
			g.abstract("clear on slice (contents havocked)", in.Pos())
		}
		return &Val{Ty: rt}
	case "close", "print", "println":
		return &Val{Ty: rt}
	case "recover":
		return g.havocVal(rt, "recover")
	case "ssa:wrapnilchk":
		return args[0]
	}
	g.abstract("builtin "+b.Name(), in.Pos())
	return g.havocVal(rt, b.Name())
}

// execAppend models append(s, t...) exactly with respect to aliasing: in place
// when the capacity suffices, a fresh backing array otherwise.
func (g *Gen) execAppend(in ssa.Instruction, args []*Val, rt types.Type) *Val {
	s := g.cur
	sl := args[0]
	elem := rt.Underlying().(*types.Slice).Elem()
	if len(args) < 2 {
		return sl
	}
	tl := args[1]
	var k string // number of appended elements
	srcIsString := false
	if _, ok := tl.Ty.Underlying().(*types.Slice); ok {
		k = sx("sl-len", tl.T)
	} else {
		k = sx("strlen", tl.T)
		srcIsString = true
	}
	ln, cp, base, off := sx("sl-len", sl.T), sx("sl-cap", sl.T), sx("sl-base", sl.T), sx("sl-off", sl.T)
	newLen := sx("+", ln, k)
	inplace := g.freshConst("inplace", "Bool")
	g.assert(eq(inplace, sx("<=", newLen, cp)))
	nb := g.alloc(s)
	ncap := g.freshConst("ncap", "Int")
	g.assume(sx(">=", ncap, newLen))
	res := g.freshConst("app", "Slice")
	// appending nothing to a nil slice yields nil
	g.assert(eq(res, ite(eq(k, "0"), sl.T, ite(inplace, sx("mk-slice", base, off, newLen, cp), sx("mk-slice", nb, "0", newLen, ncap)))))
	if isStruct(elem) {
		// struct elements: every scalar field component gets a new version
		// constrained pointwise (element objects are elemref(base, index))
		g.forEachScalarField(elem, func(_ []string, comp string, ft types.Type) {
			c := g.scalarComp(comp, ft)
			old := g.heapTerm(s, c.Name)
			n := g.newHeapVersion(c.Name)
			s.heap[c.Name] = n
			if srcIsString {
				return
			}
			tb, toff := sx("sl-base", tl.T), sx("sl-off", tl.T)
			// in place: slots [off+ln, off+ln+k) of base take the appended values
			g.assert(imp(g.curGuard, imp(inplace, fmt.Sprintf(
				"(forall ((r Int)) (! (= (select %s r) (ite (and (= (elem-base r) %s) (= (refkind r) 2) (<= (+ %s %s) (elem-idx r)) (< (elem-idx r) (+ %s %s %s))) (select %s (elemref %s (ix %s (- (elem-idx r) (+ %s %s))))) (select %s r))) :pattern ((select %s r))))",
				n, base, off, ln, off, ln, k, old, tb, toff, off, ln, old, n))))
			// reallocated: the new base holds the old elements followed by the appended ones
			g.assert(imp(g.curGuard, imp(not(inplace), fmt.Sprintf(
				"(forall ((r Int)) (! (= (select %s r) (ite (and (= (elem-base r) %s) (= (refkind r) 2) (<= 0 (elem-idx r)) (< (elem-idx r) %s)) (ite (< (elem-idx r) %s) (select %s (elemref %s (ix %s (elem-idx r)))) (select %s (elemref %s (ix %s (- (elem-idx r) %s))))) (select %s r))) :pattern ((select %s r))))",
				n, nb, newLen, ln, old, base, off, old, tb, toff, ln, old, n))))
		})
		return &Val{T: res, Ty: rt}
	}
	c := g.comp(elemComp(elem), "(Array Int "+g.st.sortOf(elem)+")")
	h := g.heapTerm(s, c.Name)
	es := g.st.sortOf(elem)
	var srcAt func(j string) string
	if srcIsString {
		srcAt = func(j string) string { return sx("strbyte", tl.T, j) }
	} else {
		tb, toff := sx("sl-base", tl.T), sx("sl-off", tl.T)
		srcAt = func(j string) string { return sel(sel(h, tb), sx("ix", toff, j)) }
	}
	// single appended element (the overwhelmingly common case): no quantifier in place
	one := false
	if ms, ok := g.sliceOfArrayLen(in, 1); ok && ms == 1 {
		one = true
	}
	oldArr := sel(h, base)
	var inplaceArr string
	if one {
		inplaceArr = store(oldArr, sx("+", off, ln), srcAt("0"))
	} else {
		a := g.freshConst("arr", "(Array Int "+es+")")
		g.assert(fmt.Sprintf("(forall ((j Int)) (! (= (select %s j) (ite (and (<= (+ %s %s) j) (< j (+ %s %s %s))) %s (select %s j))) :pattern ((select %s j))))",
			a, off, ln, off, ln, k, srcAt(sx("-", "j", sx("+", off, ln))), oldArr, a))
		inplaceArr = a
	}
	na := g.freshConst("arr", "(Array Int "+es+")")
	g.assert(fmt.Sprintf("(forall ((j Int)) (! (=> (and (<= 0 j) (< j %s)) (= (select %s j) (ite (< j %s) (select %s (ix %s j)) %s))) :pattern ((select %s j))))",
		newLen, na, ln, oldArr, off, srcAt(sx("-", "j", ln)), na))
	g.setHeap(s, c.Name, ite(eq(k, "0"), h, ite(inplace, store(h, base, inplaceArr), store(h, nb, na))))
	return &Val{T: res, Ty: rt}
}

// sliceOfArrayLen reports the constant length of the variadic argument slice of
// a call (append(s, x) is compiled to a slice of a fresh [1]T array).
func (g *Gen) sliceOfArrayLen(in ssa.Instruction, argIdx int) (int64, bool) {
	var c *ssa.CallCommon
	switch x := in.(type) {
	case *ssa.Call:
		c = &x.Call
	case *ssa.Defer:
		c = &x.Call
	default:
		return 0, false
	}
	if argIdx >= len(c.Args) {
		return 0, false
	}
	sl, ok := c.Args[argIdx].(*ssa.Slice)
	if !ok || sl.Low != nil || sl.High != nil {
		return 0, false
	}
	pt, ok := sl.X.Type().Underlying().(*types.Pointer)
	if !ok {
		return 0, false
	}
	at, ok := pt.Elem().Underlying().(*types.Array)
	if !ok {
		return 0, false
	}
	return at.Len(), true
}

func (g *Gen) execCopy(in ssa.Instruction, args []*Val, rt types.Type) *Val {
	s := g.cur
	dst, src := args[0], args[1]
	dt := dst.Ty.Underlying().(*types.Slice)
	elem := dt.Elem()
	var srcLen string
	srcIsString := false
	if _, ok := src.Ty.Underlying().(*types.Slice); ok {
		srcLen = sx("sl-len", src.T)
	} else {
		srcLen = sx("strlen", src.T)
		srcIsString = true
	}
	n := g.freshConst("ncopy", "Int")
	g.assert(eq(n, ite(sx("<=", sx("sl-len", dst.T), srcLen), sx("sl-len", dst.T), srcLen)))
	if isStruct(elem) {
		ms := compSet{}
		compsOfStore(elem, "", ms)
		for _, name := range sortedKeys(ms) {
			g.materialize(ms[name])
			s.heap[name] = g.newHeapVersion(name)
		}
		g.abstract("copy of struct elements (contents havocked)", in.Pos())
		return &Val{T: n, Ty: rt}
	}
	c := g.comp(elemComp(elem), "(Array Int "+g.st.sortOf(elem)+")")
	h := g.heapTerm(s, c.Name)
	es := g.st.sortOf(elem)
	db, doff := sx("sl-base", dst.T), sx("sl-off", dst.T)
	var srcAt func(j string) string
	if srcIsString {
		srcAt = func(j string) string { return sx("strbyte", src.T, j) }
	} else {
		sb, soff := sx("sl-base", src.T), sx("sl-off", src.T)
		srcAt = func(j string) string { return sel(sel(h, sb), sx("+", soff, j)) }
	}
	a := g.freshConst("arr", "(Array Int "+es+")")
	g.assert(fmt.Sprintf("(forall ((j Int)) (! (= (select %s j) (ite (and (<= %s j) (< j (+ %s %s))) %s (select %s j))) :pattern ((select %s j))))",
		a, doff, doff, n, srcAt(sx("-", "j", doff)), sel(h, db), a))
	g.setHeap(s, c.Name, store(h, db, a))
	return &Val{T: n, Ty: rt}
}
