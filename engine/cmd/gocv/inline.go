package main

import (
	"fmt"
	"go/types"
	"os"

	"golang.org/x/tools/go/ssa"
)

// Inlining of small helpers.
//
// A call to a function of the SAME package that has no contract used to be replaced
// by a havoc of everything the callee may write.  For small, loop-free
// helpers the callee's body is now executed in place instead (at most two levels
// deep).  This is strictly more precise than the havoc, and it keeps a contract
// valid when a few lines of a function under contract are moved into a helper:
// calls made inside the helper still count in the caller's call history and are still
// checked against the caller's call-site clauses.  Safety obligations and reachability
// probes are NOT generated for inlined bodies (the helper's own safety belongs to a
// contract of its own).

const inlineMaxInstrs = 80

type inlineRet struct {
	guard   string
	st      *State
	results []*Val
}

func (g *Gen) rootPkg() *ssa.Package {
	if len(g.inlineStack) > 0 {
		return g.inlineStack[0].Pkg
	}
	return g.fn.Pkg
}

func (g *Gen) canInline(callee *ssa.Function) bool {
	if callee == nil || callee.Blocks == nil || len(g.inlineStack) >= 3 || os.Getenv("VERIF_NO_INLINE") != "" {
		return false
	}
	if callee.Pkg == nil || callee.Pkg != g.rootPkg() || callee.Synthetic != "" {
		return false
	}
	if g.eng.contractFor(callee) != nil || g.eng.effectFree(callee) {
		return false
	}
	if callee == g.fn {
		return false
	}
	// a helper the contract itself talks about (a call-site clause on it, an assumed
	// frame for it, or its call history) is meant to be seen as one call
	if g.con != nil {
		for _, n := range funcNames(callee) {
			if g.selectors[n] || g.selectors["go:"+n] {
				return false
			}
			for _, cs := range g.con.Calls {
				if cs.Sel == n {
					return false
				}
			}
			for _, ps := range g.con.Preserves {
				if ps.Sel == n {
					return false
				}
			}
		}
	}
	for _, f := range g.inlineStack {
		if f == callee {
			return false
		}
	}
	n := 0
	for _, b := range callee.Blocks {
		for _, in := range b.Instrs {
			n++
			switch x := in.(type) {
			case *ssa.Go, *ssa.Select:
				return false
			case *ssa.Defer:
				// a deferred closure that recovers changes control flow: not inlined
				if mc, ok := x.Call.Value.(*ssa.MakeClosure); ok {
					if cf, ok := mc.Fn.(*ssa.Function); ok && callsRecover(cf) {
						return false
					}
				} else if cf, ok := x.Call.Value.(*ssa.Function); ok && callsRecover(cf) {
					return false
				}
			}
		}
	}
	return n <= inlineMaxInstrs
}

// inlineCall executes callee's body at the current point.  all = bindings (free
// variables) followed by the arguments.
func (g *Gen) inlineCall(callee *ssa.Function, all []*Val, rt types.Type) *Val {
	child := *g
	child.fn = callee
	child.vals = map[ssa.Value]*Val{}
	child.reach = map[*ssa.BasicBlock]string{}
	child.out = map[*ssa.BasicBlock]*State{}
	child.edge = map[[2]int]string{}
	child.loops = nil
	child.headerOf = map[*ssa.BasicBlock]*loopInfo{}
	child.defers = nil
	if len(g.inlineStack) == 0 {
		child.inlineStack = []*ssa.Function{g.fn, callee}
	} else {
		child.inlineStack = append(append([]*ssa.Function{}, g.inlineStack...), callee)
	}
	g.nfresh++
	child.nfresh = g.nfresh
	child.inlinePrefix = fmt.Sprintf("in%d.", g.nfresh)
	var rets []inlineRet
	child.inlineRets = &rets
	child.entryGuard = g.curGuard
	child.inlineEntry = g.cur.clone()
	i := 0
	for _, fv := range callee.FreeVars {
		if i < len(all) {
			child.vals[fv] = all[i]
		}
		i++
	}
	for _, p := range callee.Params {
		if i < len(all) {
			child.vals[p] = all[i]
		}
		i++
	}
	// loops of the helper have no invariant of their own: they are cut with the facts
	// the generator infers (counters, niter, prefix facts) and the caller's frame
	child.loops = nil
	if err := child.findLoops(); err != nil {
		g.fail("inlining %s: %v", shortName(callee), err)
	}
	for _, b := range rpo(callee) {
		if callee.Recover != nil && b == callee.Recover {
			continue
		}
		if err := child.execBlock(b); err != nil {
			g.fail("inlining %s: %v", shortName(callee), err)
		}
	}
	// what the child appended to the shared, value-typed parts of the generator
	g.decls, g.ctx, g.obls = child.decls, child.ctx, child.obls
	g.nfresh = child.nfresh
	g.abstracted, g.assumptions = child.abstracted, child.assumptions
	g.lemmasUsed = child.lemmasUsed
	g.inferred = child.inferred
	g.declared = child.declared
	g.curBlock = g.curBlock // unchanged
	if len(rets) == 0 {
		// the helper never returns (panics on every path): nothing after the call is reachable
		g.cur = g.cur.clone()
		g.assume("false")
		return g.havocVal(rt, "r."+shortName(callee))
	}
	var ins []inEdge
	for _, r := range rets {
		ins = append(ins, inEdge{r.guard, r.st})
	}
	if len(ins) == 1 {
		g.cur = ins[0].st
	} else {
		g.cur = g.mergeStates(g.curBlock, ins)
	}
	if len(child.loops) > 0 {
		// the helper's loops were cut: the paths that go round a back edge end there.
		// What follows the call is reached only through one of the return sites.
		var gs []string
		for _, r := range rets {
			gs = append(gs, r.guard)
		}
		ng := g.freshConst("Rret", "Bool")
		g.assert(eq(ng, and(g.curGuard, sx("or", append(gs, "false")...))))
		g.curGuard = ng
		if g.curBlock != nil {
			g.reach[g.curBlock] = ng
		}
	}
	// results: ite over the return sites
	nres := 0
	if tup, ok := rt.(*types.Tuple); ok {
		nres = tup.Len()
	} else if rt != nil {
		nres = 1
	}
	if nres == 0 {
		return &Val{Ty: rt}
	}
	merge := func(k int, ty types.Type) *Val {
		v := rets[len(rets)-1].results[k]
		out := &Val{T: v.T, Ty: ty, Fn: v.Fn, Binds: v.Binds, Boxed: v.Boxed}
		differ := false
		for j := len(rets) - 2; j >= 0; j-- {
			if rets[j].results[k].T != v.T {
				differ = true
			}
		}
		if !differ || v.T == "" {
			return out
		}
		// a named result, equal to the value returned at whichever return site was
		// taken (a nested ite inside index arithmetic defeats quantifier matching)
		r := g.freshConst("r."+shortName(callee), g.st.sortOf(ty))
		for _, rt := range rets {
			g.assert(imp(rt.guard, eq(r, rt.results[k].T)))
		}
		return &Val{T: r, Ty: ty}
	}
	if tup, ok := rt.(*types.Tuple); ok {
		res := &Val{Ty: rt}
		for k := 0; k < tup.Len(); k++ {
			res.Tuple = append(res.Tuple, merge(k, tup.At(k).Type()))
		}
		return res
	}
	return merge(0, rt)
}

func callsRecover(fn *ssa.Function) bool {
	for _, b := range fn.Blocks {
		for _, in := range b.Instrs {
			if c, ok := in.(*ssa.Call); ok {
				if bi, ok := c.Call.Value.(*ssa.Builtin); ok && bi.Name() == "recover" {
					return true
				}
			}
		}
	}
	return false
}
