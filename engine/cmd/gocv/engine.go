package main

import (
	"sync"
	"regexp"
	"fmt"
	"go/token"
	"go/types"
	"os"
	"path/filepath"
	"sort"
	"strings"

	"golang.org/x/tools/go/packages"
	"golang.org/x/tools/go/ssa"
	"golang.org/x/tools/go/ssa/ssautil"
)

type Engine struct {
	repo       string
	verifDir   string
	fset       *token.FileSet
	prog       *ssa.Program
	pkgs       []*packages.Package
	spkgs      []*ssa.Package
	sizes      types.Sizes
	allFuncs   map[*ssa.Function]bool
	namedTypes []types.Type
	allNamed   []*types.Named
	contracts  map[string]*Contract
	ifaceCons  map[string]*Contract
	funcTypeCons map[string]*Contract
	modset     map[*ssa.Function]compSet
	callees    map[*ssa.Function][]*ssa.Function
	bySig      map[string][]*ssa.Function
	implCache  map[string][]*ssa.Function
	compSorts  map[string]func(*Gen) string

	nonNilResult map[string]bool
	freshResult map[string]bool
	preludeSyms map[string]bool
	effectFreeFn map[string]bool
	effectFreePk []string
	contractFiles []string
	defs map[string]*Def
	loadErrors []string
}

func NewEngine(repo, verifDir string) *Engine {
	return &Engine{repo: repo, verifDir: verifDir,
		contracts: map[string]*Contract{}, ifaceCons: map[string]*Contract{}, funcTypeCons: map[string]*Contract{},
		implCache: map[string][]*ssa.Function{}, compSorts: map[string]func(*Gen) string{},
		freshResult: map[string]bool{}, preludeSyms: map[string]bool{}, nonNilResult: map[string]bool{}, effectFreeFn: map[string]bool{}, defs: map[string]*Def{}}
}

// Load loads and builds SSA for the given package patterns (relative to repo).
func (e *Engine) Load(patterns []string) error {
	cfg := &packages.Config{
		Mode:       packages.LoadSyntax,
		Dir:        e.repo,
		BuildFlags: []string{"-tags=verif"},
		Env:        goEnv(),
	}
	pkgs, err := packages.Load(cfg, patterns...)
	if err != nil {
		return err
	}
	for _, p := range pkgs {
		for _, er := range p.Errors {
			e.loadErrors = append(e.loadErrors, er.Error())
		}
	}
	if len(e.loadErrors) > 0 {
		return fmt.Errorf("package load errors: %s", strings.Join(e.loadErrors, "; "))
	}
	e.pkgs = pkgs
	if len(pkgs) > 0 {
		e.fset = pkgs[0].Fset
		e.sizes = pkgs[0].TypesSizes
	}
	prog, spkgs := ssautil.Packages(pkgs, ssa.InstantiateGenerics|ssa.GlobalDebug)
	prog.Build()
	e.prog = prog
	e.spkgs = spkgs
	e.allFuncs = ssautil.AllFunctions(prog)
	seenNamed := map[*types.Named]bool{}
	for _, p := range pkgs {
		sc := p.Types.Scope()
		for _, n := range sc.Names() {
			if tn, ok := sc.Lookup(n).(*types.TypeName); ok {
				if named, ok := tn.Type().(*types.Named); ok && named.TypeParams().Len() == 0 {
					e.namedTypes = append(e.namedTypes, named)
				}
			}
		}
		var visit func(tp *types.Package)
		seenPkg := map[*types.Package]bool{}
		visit = func(tp *types.Package) {
			if seenPkg[tp] {
				return
			}
			seenPkg[tp] = true
			for _, n := range tp.Scope().Names() {
				if tn, ok := tp.Scope().Lookup(n).(*types.TypeName); ok {
					if named, ok := tn.Type().(*types.Named); ok && !seenNamed[named] {
						seenNamed[named] = true
						e.allNamed = append(e.allNamed, named)
					}
				}
			}
			for _, imp := range tp.Imports() {
				visit(imp)
			}
		}
		visit(p.Types)
	}
	// contract files of every package in the repository: the loaded packages'
	// functions are verified against them, other packages' contracts are used
	// at call sites (they are proved under the property that loads that package)
	modPath := "github.com/conduitio/conduit"
	var cfiles []string
	filepath.WalkDir(e.repo, func(path string, d os.DirEntry, err error) error {
		if err != nil {
			return nil
		}
		if d.IsDir() && (d.Name() == ".git" || d.Name() == "node_modules" || d.Name() == "vendor") {
			return filepath.SkipDir
		}
		if !d.IsDir() && d.Name() == "zz_contracts_verif.go" {
			cfiles = append(cfiles, path)
		}
		return nil
	})
	sort.Strings(cfiles)
	for _, f := range cfiles {
		rel, _ := filepath.Rel(e.repo, filepath.Dir(f))
		pkgPath := modPath
		if rel != "." {
			pkgPath = modPath + "/" + filepath.ToSlash(rel)
		}
		cs, defs, err := ParseContractFile(pkgPath, f)
		if err != nil {
			return err
		}
		for _, d := range defs {
			e.defs[d.Name] = d
			if d.GhostMap != "" {
				ghostMapMu.Lock()
				ghostMapSorts[d.Name] = d.GhostMap
				ghostMapMu.Unlock()
			}
		}
		e.contractFiles = append(e.contractFiles, f)
		e.addContracts(cs)
	}
	// trusted contracts for functions outside the loaded packages
	vcs, _ := filepath.Glob(filepath.Join(e.verifDir, "spec", "*.vc"))
	sort.Strings(vcs)
	for _, f := range vcs {
		cs, defs, err := ParseContractFile("", f)
		if err != nil {
			return err
		}
		for _, d := range defs {
			e.defs[d.Name] = d
			if d.GhostMap != "" {
				ghostMapMu.Lock()
				ghostMapSorts[d.Name] = d.GhostMap
				ghostMapMu.Unlock()
			}
		}
		for _, c := range cs {
			c.Trusted = true
		}
		e.contractFiles = append(e.contractFiles, f)
		e.addContracts(cs)
	}
	if err := e.loadEffectFree(); err != nil {
		return err
	}
	e.loadPreludeSyms()
	e.computeModsets()
	return nil
}

func (e *Engine) addContracts(cs []*Contract) {
	for _, c := range cs {
		if c.IsFuncType {
			e.funcTypeCons[c.FullKey()] = c
		} else if c.IsIface {
			e.ifaceCons[c.FullKey()] = c
		} else {
			e.contracts[c.FullKey()] = c
		}
	}
}

func (e *Engine) loadEffectFree() error {
	b, err := os.ReadFile(filepath.Join(e.verifDir, "spec", "effectfree.txt"))
	if err != nil {
		return nil
	}
	for _, l := range strings.Split(string(b), "\n") {
		l = strings.TrimSpace(l)
		if l == "" || strings.HasPrefix(l, "#") {
			continue
		}
		f := strings.Fields(l)
		name := f[0]
		if strings.HasSuffix(name, "/*") || strings.HasSuffix(name, ".*") {
			e.effectFreePk = append(e.effectFreePk, name[:len(name)-2])
		} else {
			e.effectFreeFn[name] = true
		}
		for _, opt := range f[1:] {
			if opt == "nonnil" {
				e.nonNilResult[name] = true
			}
			if opt == "fresh" {
				e.freshResult[name] = true
				e.nonNilResult[name] = true
			}
		}
	}
	return nil
}

func (e *Engine) effectFree(f *ssa.Function) bool {
	for _, n := range funcNames(f) {
		if e.effectFreeFn[n] {
			return true
		}
	}
	pp := ""
	if f.Pkg != nil {
		pp = f.Pkg.Pkg.Path()
	} else if o := f.Object(); o != nil && o.Pkg() != nil {
		pp = o.Pkg().Path()
	}
	for _, p := range e.effectFreePk {
		if pp == p {
			return true
		}
	}
	return false
}

func (e *Engine) contractFor(f *ssa.Function) *Contract {
	if f == nil {
		return nil
	}
	if f.Parent() != nil {
		return e.closureContract(f)
	}
	// generic instantiations share the origin's contract
	for _, n := range funcNames(f) {
		if c, ok := e.contracts[n]; ok {
			return c
		}
	}
	return nil
}

func (e *Engine) closureContract(f *ssa.Function) *Contract {
	for _, c := range e.contracts {
		if c.Closure == nil {
			continue
		}
		if fn, err := e.resolveClosure(c); err == nil && fn == f {
			return c
		}
	}
	return nil
}

func (e *Engine) ifaceContract(cc *ssa.CallCommon) *Contract {
	key := types.TypeString(cc.Value.Type(), nil) + "." + cc.Method.Name()
	if c, ok := e.ifaceCons[key]; ok {
		return c
	}
	return nil
}

// FindFunc resolves a contract to its SSA function.
func (e *Engine) FindFunc(c *Contract) (*ssa.Function, error) {
	if c.Closure != nil {
		return e.resolveClosure(c)
	}
	return e.findFuncByKey(c.FullKey())
}

func (e *Engine) findFuncByKey(key string) (*ssa.Function, error) {
	var found []*ssa.Function
	for fn := range e.allFuncs {
		if fn.Parent() != nil || fn.Synthetic != "" && !strings.HasPrefix(fn.Synthetic, "instance") && fn.Synthetic != "package initializer" {
			continue
		}
		for _, n := range funcNames(fn) {
			if n == key {
				found = append(found, fn)
				break
			}
		}
	}
	if len(found) == 0 {
		return nil, fmt.Errorf("function %s not found (contract target missing)", key)
	}
	if len(found) > 1 {
		// prefer the one with a body / non-instance
		sort.Slice(found, func(i, j int) bool { return found[i].String() < found[j].String() })
	}
	return found[0], nil
}

func (e *Engine) resolveClosure(c *Contract) (*ssa.Function, error) {
	parent, err := e.findFuncByKey(c.Pkg + "." + c.Closure.Parent)
	if err != nil {
		return nil, err
	}
	var matches []*ssa.Function
	byOrdinal := regexp.MustCompile(`^(\$[0-9]+)+$`).MatchString(c.Closure.Calling)
	var walk func(f *ssa.Function)
	walk = func(f *ssa.Function) {
		for _, a := range f.AnonFuncs {
			if byOrdinal {
				// "calling $2$1": the closure is named by its ordinal path
				if a.Name() == parent.Name()+c.Closure.Calling {
					matches = append(matches, a)
				}
			} else if closureCalls(a, c.Closure.Calling) {
				matches = append(matches, a)
			}
			walk(a)
		}
	}
	walk(parent)
	if len(matches) != 1 {
		return nil, fmt.Errorf("closure selector %q matches %d closures (contract target missing)", c.Key, len(matches))
	}
	return matches[0], nil
}

func closureCalls(f *ssa.Function, sel string) bool {
	for _, b := range f.Blocks {
		for _, in := range b.Instrs {
			var cc *ssa.CallCommon
			switch x := in.(type) {
			case *ssa.Call:
				cc = &x.Call
			case *ssa.Defer:
				cc = &x.Call
			case *ssa.Go:
				cc = &x.Call
			}
			if cc == nil {
				continue
			}
			for _, n := range callNames(cc) {
				if n == sel {
					return true
				}
			}
		}
	}
	return false
}

func (e *Engine) funcDisplayName(fn *ssa.Function, con *Contract) string {
	pkg := ""
	if fn.Pkg != nil {
		pkg = fn.Pkg.Pkg.Name()
	}
	if con != nil && con.Closure != nil {
		return dispPkg(fn, pkg+"."+strings.ReplaceAll(con.Key, " ", "_"))
	}
	ns := funcNames(fn)
	name := ns[0]
	if len(ns) > 1 {
		name = ns[1]
	}
	return dispPkg(fn, name)
}

// dispPkg: when a package's directory name differs from its package name
// (pkg/lifecycle-poc is package lifecycle, like pkg/lifecycle), display names
// use the directory name, so that obligations of the two packages stay apart.
func dispPkg(fn *ssa.Function, name string) string {
	if fn.Pkg == nil {
		return name
	}
	pn, base := fn.Pkg.Pkg.Name(), filepath.Base(fn.Pkg.Pkg.Path())
	if pn != base && strings.HasPrefix(name, pn+".") {
		return base + strings.TrimPrefix(name, pn)
	}
	return name
}

// contractModComps: the components named by a contract's modifies clause,
// computed from static types (whole components; used for loop havoc sets and
// transitive write sets).
func (e *Engine) contractModComps(con *Contract, f *ssa.Function) compSet {
	env := map[string]types.Type{}
	i := 0
	for _, fv := range f.FreeVars {
		if i < len(con.Params) {
			env[con.Params[i]] = fv.Type()
		}
		i++
	}
	for _, p := range f.Params {
		if i < len(con.Params) {
			env[con.Params[i]] = p.Type()
		}
		i++
	}
	sig := f.Signature
	for j, r := range con.Results {
		if j < sig.Results().Len() {
			env[r] = sig.Results().At(j).Type()
		}
	}
	return e.modCompsEnv(con, env)
}

func (e *Engine) contractModCompsSig(con *Contract, sig *types.Signature, invoke bool) compSet {
	env := map[string]types.Type{}
	i := 0
	if invoke {
		i = 1 // receiver is an interface value: no fields
	}
	for j := 0; j < sig.Params().Len(); j++ {
		if i < len(con.Params) {
			env[con.Params[i]] = sig.Params().At(j).Type()
		}
		i++
	}
	return e.modCompsEnv(con, env)
}

func (en *Engine) modCompsEnv(con *Contract, env map[string]types.Type) compSet {
	out := compSet{}
	for _, m := range con.Modifies {
		en.specLvalComps(m, env, out)
	}
	return out
}

func (en *Engine) specStaticType(e *SExpr, env map[string]types.Type) types.Type {
	switch e.Kind {
	case SIdent:
		return env[e.Name]
	case SField:
		t := en.specStaticType(e.X, env)
		if t == nil {
			return nil
		}
		if p, ok := t.Underlying().(*types.Pointer); ok {
			t = p.Elem()
		}
		if u, ok := t.Underlying().(*types.Struct); ok {
			_, ft, _ := findField(u, e.Name)
			return ft
		}
	case SIndex:
		t := en.specStaticType(e.X, env)
		if t == nil {
			return nil
		}
		switch u := t.Underlying().(type) {
		case *types.Slice:
			return u.Elem()
		case *types.Array:
			return u.Elem()
		case *types.Map:
			return u.Elem()
		}
	case SSlice:
		return en.specStaticType(e.X, env)
	case SCall:
		if (e.Name == "ptr" || e.Name == "asptr") && len(e.Args) == 2 {
			if t, err := en.typeByName(selName(e.Args[1])); err == nil {
				return t
			}
			return nil
		}
		if d, ok := en.defs[e.Name]; ok && d.Body != nil && len(d.Params) == len(e.Args) {
			sub := map[string]types.Type{}
			for i, p := range d.Params {
				sub[p] = en.specStaticType(e.Args[i], env)
			}
			return en.specStaticType(d.Body, sub)
		}
	}
	return nil
}

func (en *Engine) typeByName(name string) (types.Type, error) {
	ptr := strings.HasPrefix(name, "*")
	bare := strings.TrimPrefix(name, "*")
	for _, t := range en.allNamed {
		if typeShort(t) == bare {
			var tt types.Type = t
			if ptr {
				tt = types.NewPointer(t)
			}
			return tt, nil
		}
	}
	return nil, fmt.Errorf("unknown type %q", name)
}

func (en *Engine) specLvalComps(e *SExpr, env map[string]types.Type, out compSet) {
	switch e.Kind {
	case SField:
		t := en.specStaticType(e.X, env)
		if t == nil {
			return
		}
		if sl, ok := t.Underlying().(*types.Slice); ok && e.X.Kind == SSlice {
			t = sl.Elem() // s[*].F
		}
		if p, ok := t.Underlying().(*types.Pointer); ok {
			t = p.Elem()
		}
		if u, ok := t.Underlying().(*types.Struct); ok {
			idx, ft, _ := findField(u, e.Name)
			if idx >= 0 {
				compsOfStore(ft, fieldComp(t, e.Name), out)
			}
		}
	case SIndex, SSlice:
		t := en.specStaticType(e.X, env)
		if t == nil {
			return
		}
		switch u := t.Underlying().(type) {
		case *types.Slice:
			if isStruct(u.Elem()) {
				compsOfStore(u.Elem(), "", out)
			} else {
				out.add(sComp{Name: elemComp(u.Elem()), Kind: scElems, T: u.Elem()})
			}
		case *types.Map:
			mapSComps(u, out)
		}
	case SCall:
		if d, ok := en.defs[e.Name]; ok && d.Body != nil && len(d.Params) == len(e.Args) {
			sub := map[string]types.Type{}
			for i, p := range d.Params {
				sub[p] = en.specStaticType(e.Args[i], env)
			}
			en.specLvalComps(d.Body, sub, out)
			return
		}
		if e.Name == "deref" && len(e.Args) == 1 {
			if t := en.specStaticType(e.Args[0], env); t != nil {
				if p, ok := t.Underlying().(*types.Pointer); ok {
					compsOfStore(p.Elem(), cellComp(p.Elem()), out)
				}
			}
		}
		ghostMapMu.Lock()
		gms := ghostMapSorts[e.Name]
		ghostMapMu.Unlock()
		if len(e.Args) == 1 && gms != "" {
			out.add(sComp{Name: "ghost." + e.Name, Kind: scGhost, Sort: gms})
		}
		if e.Name == "all" && len(e.Args) == 1 {
			t := en.specStaticType(e.Args[0], env)
			if t == nil {
				return
			}
			if p, ok := t.Underlying().(*types.Pointer); ok {
				t = p.Elem()
			}
			compsOfStore(t, "", out)
		}
	}
}

// funcTypeContract: contract for a dynamic call through a value of a named func type.
func (e *Engine) funcTypeContract(cc *ssa.CallCommon) *Contract {
	if cc.IsInvoke() || cc.StaticCallee() != nil {
		return nil
	}
	key := types.TypeString(cc.Value.Type(), nil)
	if c, ok := e.funcTypeCons[key]; ok {
		return c
	}
	return nil
}

var ghostMapSorts = map[string]string{}
var ghostMapMu sync.Mutex

// goEnv: environment for `go list` (offline, the repository's own toolchain first on PATH).
func goEnv() []string {
	tc := "/root/go/pkg/mod/golang.org/toolchain@v0.0.1-go1.25.8.linux-amd64/bin"
	path := os.Getenv("PATH")
	if _, err := os.Stat(tc + "/go"); err == nil && !strings.HasPrefix(path, tc) {
		path = tc + ":" + path
	}
	var env []string
	for _, kv := range os.Environ() {
		if strings.HasPrefix(kv, "PATH=") || strings.HasPrefix(kv, "GOSUMDB=") || strings.HasPrefix(kv, "GOFLAGS=") || strings.HasPrefix(kv, "GOPROXY=") || strings.HasPrefix(kv, "GOTOOLCHAIN=") {
			continue
		}
		env = append(env, kv)
	}
	return append(env, "PATH="+path, "GOFLAGS=-mod=mod", "GOPROXY=off", "GOTOOLCHAIN=local")
}

// typesInfo returns the go/types info of the package a function belongs to.
func (e *Engine) typesInfo(fn *ssa.Function) *types.Info {
	for fn.Parent() != nil {
		fn = fn.Parent()
	}
	if fn.Pkg == nil {
		return nil
	}
	for _, p := range e.pkgs {
		if p.Types == fn.Pkg.Pkg {
			return p.TypesInfo
		}
	}
	return nil
}

var symRe = regexp.MustCompile(`[A-Za-z_][A-Za-z0-9_!.$-]*`)

// loadPreludeSyms collects every symbol mentioned in the spec preludes, so that
// a contract identifier that is neither bound nor declared there is an error
// instead of a malformed solver query.
func (e *Engine) loadPreludeSyms() {
	ms, _ := filepath.Glob(filepath.Join(e.verifDir, "spec", "*.smt2"))
	for _, m := range ms {
		if strings.HasSuffix(m, ".lemmas.smt2") {
			// constants declared inside lemma proof blocks are local to those blocks:
			// they are not symbols a contract may mention
			continue
		}
		b, err := os.ReadFile(m)
		if err != nil {
			continue
		}
		forms, err := parseTop(string(b))
		if err != nil {
			// fall back to the lexical scan
			for _, s := range symRe.FindAllString(string(b), -1) {
				e.preludeSyms[s] = true
			}
			continue
		}
		for _, tf := range forms {
			f := tf.form
			if f == nil || !f.isList || len(f.list) < 2 || f.list[0].isList {
				continue
			}
			switch f.list[0].atom {
			case "declare-fun", "define-fun", "define-fun-rec", "declare-const", "define-const", "declare-sort":
				if !f.list[1].isList {
					e.preludeSyms[f.list[1].atom] = true
				}
			case "declare-datatypes":
				// every sort, constructor and selector name
				var walk func(x *sexp)
				walk = func(x *sexp) {
					if !x.isList {
						if symRe.MatchString(x.atom) {
							e.preludeSyms[x.atom] = true
						}
						return
					}
					for _, y := range x.list {
						walk(y)
					}
				}
				for _, x := range f.list[1:] {
					walk(x)
				}
			}
		}
	}
}

// constByName finds a package-level constant by bare name in the loaded packages
// and their imports (first match; used for enum constants in contracts).
func (e *Engine) constByName(name string) *types.Const {
	for _, p := range e.pkgs {
		if c, ok := p.Types.Scope().Lookup(name).(*types.Const); ok {
			return c
		}
	}
	for _, p := range e.pkgs {
		for _, imp := range p.Types.Imports() {
			if c, ok := imp.Scope().Lookup(name).(*types.Const); ok && strings.HasPrefix(imp.Path(), "github.com/conduitio/") {
				return c
			}
		}
	}
	return nil
}

// namedDynContract: a (trusted) contract for a dynamic call through a package
// variable of func type, keyed by its selector name, e.g. "$global.cerrors.As".
func (e *Engine) namedDynContract(cc *ssa.CallCommon) *Contract {
	if cc.IsInvoke() || cc.StaticCallee() != nil {
		return nil
	}
	if _, ok := cc.Value.(*ssa.Builtin); ok {
		return nil
	}
	for _, n := range callNames(cc) {
		if strings.HasPrefix(n, "$global.") {
			if c, ok := e.contracts[n]; ok {
				return c
			}
		}
	}
	return nil
}

// findGlobal resolves "pkgname.Var" to the SSA global.
func (e *Engine) findGlobal(name string) *ssa.Global {
	i := strings.LastIndex(name, ".")
	if i < 0 {
		return nil
	}
	pkg, v := name[:i], name[i+1:]
	for _, p := range e.prog.AllPackages() {
		if p.Pkg.Name() != pkg && p.Pkg.Path() != pkg {
			continue
		}
		if gl, ok := p.Members[v].(*ssa.Global); ok {
			return gl
		}
	}
	return nil
}

// OwnershipViolations checks every //verif:owns declaration of the loaded
// packages: a struct field may be stored to only by the listed functions
// (closures count as their enclosing function).
func (e *Engine) OwnershipViolations() (checked []string, bad []string) {
	loaded := map[string]*ssa.Package{}
	for _, sp := range e.spkgs {
		if sp != nil {
			loaded[sp.Pkg.Path()] = sp
		}
	}
	for name, d := range e.defs {
		if d.Owns == nil || !strings.HasPrefix(name, "owns:") {
			continue
		}
		rest := strings.TrimPrefix(name, "owns:")
		j := strings.LastIndex(rest, ":")
		pkgPath, tf := rest[:j], rest[j+1:]
		sp := loaded[pkgPath]
		if sp == nil {
			continue
		}
		k := strings.LastIndex(tf, ".")
		if k < 0 {
			bad = append(bad, "owns "+tf+": expected Type.field")
			continue
		}
		tname, fname := tf[:k], tf[k+1:]
		var comp string
		if tname == "global" {
			// a package-level variable: "global.<name>"
			gl, ok := sp.Members[fname].(*ssa.Global)
			if !ok {
				bad = append(bad, "owns "+tf+": package variable not found (contract target missing)")
				continue
			}
			comp = "global:" + gl.String()
		} else {
			obj, ok := sp.Pkg.Scope().Lookup(tname).(*types.TypeName)
			if !ok {
				bad = append(bad, "owns "+tf+": type not found (contract target missing)")
				continue
			}
			comp = fieldComp(obj.Type(), fname)
		}
		allowed := map[string]bool{}
		for _, a := range d.Owns {
			allowed[a] = true
		}
		found := false
		for fn := range e.allFuncs {
			if fn.Blocks == nil {
				continue
			}
			root := fn
			for root.Parent() != nil {
				root = root.Parent()
			}
			if root.Pkg == nil {
				continue
			}
			ms := compSet{}
			for _, b := range fn.Blocks {
				for _, in := range b.Instrs {
					if st, ok := in.(*ssa.Store); ok {
						addrComps(st.Addr, ms)
					}
				}
			}
			if _, writes := ms[comp]; !writes {
				continue
			}
			found = true
			ok := false
			for _, n := range funcNames(root) {
				if allowed[n] {
					ok = true
				}
			}
			if !ok && e.onlyCalledFrom(root, allowed, 3) {
				// a private helper that runs only as part of the listed functions
				ok = true
			}
			if !ok {
				bad = append(bad, fmt.Sprintf("owns %s: %s stores to the field but is not among %v", tf, funcNames(root)[1], d.Owns))
			}
		}
		if !found {
			bad = append(bad, "owns "+tf+": no function stores to this field (contract target missing)")
		}
		checked = append(checked, tf+" : "+strings.Join(d.Owns, ", "))
	}
	sort.Strings(checked)
	sort.Strings(bad)
	return
}

// onlyCalledFrom: w is an unexported function that is only ever called directly (never
// started as a goroutine, deferred past its caller is fine, never taken as a value), and
// every caller is one of the allowed functions or such a helper itself.
func (e *Engine) onlyCalledFrom(w *ssa.Function, allowed map[string]bool, depth int) bool {
	if depth == 0 || w.Object() == nil || w.Object().Exported() {
		return false
	}
	callers := 0
	for fn := range e.allFuncs {
		if fn.Blocks == nil {
			continue
		}
		root := fn
		for root.Parent() != nil {
			root = root.Parent()
		}
		for _, b := range fn.Blocks {
			for _, in := range b.Instrs {
				uses := false
				for _, op := range in.Operands(nil) {
					if op != nil && *op == ssa.Value(w) {
						uses = true
					}
				}
				if !uses {
					continue
				}
				var cc *ssa.CallCommon
				switch x := in.(type) {
				case *ssa.Call:
					cc = &x.Call
				case *ssa.Defer:
					cc = &x.Call
				}
				if cc == nil || cc.IsInvoke() || cc.Value != ssa.Value(w) {
					return false // goroutine, method value, stored in a variable...
				}
				for _, a := range cc.Args {
					if a == ssa.Value(w) {
						return false
					}
				}
				callers++
				if root == w {
					continue
				}
				ok := false
				for _, n := range funcNames(root) {
					if allowed[n] {
						ok = true
					}
				}
				if !ok && !e.onlyCalledFrom(root, allowed, depth-1) {
					return false
				}
			}
		}
	}
	return callers > 0
}
