package main

import (
	"fmt"
	"go/ast"
	"go/constant"
	"go/token"
	"go/types"
	"strings"

	"golang.org/x/tools/go/ssa"
)

// loopVarEnv binds the names of the header phis.
func (g *Gen) loopVarNames(li *loopInfo) []string {
	names := make([]string, len(li.phis))
	for i, p := range li.phis {
		names[i] = p.Comment
	}
	if li.spec != nil && len(li.spec.Vars) > 0 {
		pos := 0
		for _, n := range li.spec.Vars {
			if k := strings.Index(n, "="); k > 0 {
				// name=comment: bind the phi whose SSA comment (source variable
				// name, "rangeindex", "rangeint.iter") matches
				found := false
				for i, p := range li.phis {
					if p.Comment == n[k+1:] {
						names[i] = n[:k]
						found = true
					}
				}
				if !found && n[k+1:] == "rangeindex" {
					// the loop is not (or no longer) a range loop: the name then stands for
					// "index of the last completed iteration", niter - 1, which is what a
					// range loop's hidden index is
					dup := false
					for _, a := range li.iterAlias {
						if a == n[:k] {
							dup = true
						}
					}
					if !dup {
						li.iterAlias = append(li.iterAlias, n[:k])
					}
					found = true
				}
				if !found {
					li.bindErr = fmt.Sprintf("loop %d: the contract binds %s but the loop has no such variable (the loop's shape differs from the contract)", li.idx, n)
				}
				continue
			}
			if pos < len(names) {
				names[pos] = n
			}
			pos++
		}
	}
	return names
}

func (g *Gen) enterLoop(li *loopInfo, ins []inEdge, fwdPreds []*ssa.BasicBlock) error {
	b := li.header
	names := g.loopVarNames(li)
	if li.bindErr != "" {
		return fmt.Errorf("%s", li.bindErr)
	}
	if li.spec != nil && len(li.spec.Vars) > len(li.phis) && !strings.Contains(strings.Join(li.spec.Vars, ","), "=") {
		return fmt.Errorf("loop %d: contract binds %d loop variables, header has %d phis", li.idx, len(li.spec.Vars), len(li.phis))
	}
	// entry values of the phis (merged over forward edges)
	entryEnv := map[string]*Val{}
	for k, v := range g.env {
		entryEnv[k] = v
	}
	for pi, phi := range li.phis {
		type alt struct{ cond, val string }
		var alts []alt
		for i, p := range b.Preds {
			if isBackEdge(p, b) {
				continue
			}
			if _, ok := g.out[p]; !ok {
				continue
			}
			for si, s := range p.Succs {
				if s == b {
					alts = append(alts, alt{g.edgeCond(p, si), g.val(phi.Edges[i]).T})
				}
			}
		}
		if len(alts) == 0 {
			return fmt.Errorf("loop %d has no entry edge", li.idx)
		}
		t := alts[len(alts)-1].val
		for i := len(alts) - 2; i >= 0; i-- {
			t = ite(alts[i].cond, alts[i].val, t)
		}
		entryEnv[names[pi]] = &Val{T: t, Ty: phi.Type()}
	}
	// niter: the number of completed iterations (0 on entry, +1 on every back edge);
	// invariants phrased over it do not depend on how the loop counts
	if _, clash := entryEnv["niter"]; !clash {
		entryEnv["niter"] = &Val{T: "0", Ty: intType}
	}
	for _, a := range li.iterAlias {
		entryEnv[a] = &Val{T: "(- 1)", Ty: intType}
	}
	// inv-entry obligations
	if li.spec != nil {
		sc := g.specCtx(entryEnv, g.cur, g.init)
		for _, cl := range li.spec.Hints {
			t, err := sc.evalBool(cl.E)
			if err != nil {
				return fmt.Errorf("loop %d hint %s: %v", li.idx, cl.Src, err)
			}
			g.assume(t)
			g.noteLemmaUse(cl.E)
		}
		for i, cl := range li.spec.Invs {
			t, err := sc.evalBool(cl.E)
			if err != nil {
				return fmt.Errorf("loop %d invariant %s: %v", li.idx, cl.Src, err)
			}
			label := cl.Label
			if label == "" {
				label = fmt.Sprintf("%d", i)
			}
			g.oblige("inv-entry", fmt.Sprintf("L%d:%s", li.idx, label), t, g.loopPos(li), cl.Src)
		}
	}
	// havoc the loop's write set
	mods, ghosts := g.loopMods(li)
	pre := g.cur
	g.cur = pre.clone()
	var allowed map[string][]frameTarget
	if g.con != nil && g.con.HasMod {
		allowed = g.frameTargets()
	}
	for _, c := range mods {
		if _, ok := g.comps[c]; !ok {
			continue
		}
		n := g.newHeapVersion(c)
		if allowed != nil {
			// loop frame: locations that existed at function entry and are outside
			// the function's modifies clause keep their pre-loop value (checked
			// again at every back edge, see closeLoop)
			conds := []string{sx("<", sx("root", "r"), "brk0")}
			for _, t := range allowed[c] {
				conds = append(conds, t.outside("r"))
			}
			g.assert(fmt.Sprintf("(forall ((r Int)) (! (=> %s (= (select %s r) (select %s r))) :pattern ((select %s r))))",
				and(conds...), n, g.heapTerm(pre, c), n))
		}
		g.cur.heap[c] = n
	}
	li.preState = pre
	li.modSet = map[string]bool{}
	for _, c := range mods {
		li.modSet[c] = true
	}
	// $brk monotone
	nb := g.freshConst("g.brk", "Int")
	g.assert(sx(">=", nb, g.ghostTerm(pre, "$brk")))
	g.cur.ghost["$brk"] = nb
	for _, gh := range ghosts {
		if strings.HasPrefix(gh, "$local:") {
			// a source variable assigned in the loop: at the header it is either one
			// of the phis (bound below) or has no defined value
			delete(g.cur.ghost, gh)
			continue
		}
		old := g.ghostTerm(pre, gh)
		n := g.freshConst("g."+strings.TrimPrefix(gh, "$"), g.ghostSort(gh))
		switch {
		case strings.HasPrefix(gh, "$called:"):
			g.assert(imp(old, n))
		case strings.HasPrefix(gh, "$allok:"):
			g.assert(imp(n, old))
		case strings.HasPrefix(gh, "$count:"), strings.HasPrefix(gh, "$sumlen:"):
			g.assert(sx(">=", n, old))
		case strings.HasPrefix(gh, "$since:"), strings.HasPrefix(gh, "$sent:"):
			g.assert(sx(">=", n, "0"))
		}
		g.cur.ghost[gh] = n
	}
	li.ghostSet = map[string]bool{"$brk": true}
	for _, gh := range ghosts {
		li.ghostSet[gh] = true
	}
	// phis become arbitrary
	hdrEnv := map[string]*Val{}
	for k, v := range g.env {
		hdrEnv[k] = v
	}
	for pi, phi := range li.phis {
		c := g.declare(g.valName(phi), g.st.sortOf(phi.Type()))
		v := &Val{T: c, Ty: phi.Type()}
		g.vals[phi] = v
		g.assumeTypeInv(v, g.ghostTerm(g.cur, "$brk"))
		// structural facts about compiler-generated range counters
		switch phi.Comment {
		case "rangeindex":
			g.assume(sx(">=", c, "(- 1)"))
		case "rangeint.iter":
			g.assume(sx(">=", c, "0"))
		}
		hdrEnv[names[pi]] = v
		// the source variable the phi stands for has the phi's value at the header
		if gn := "$local:" + phi.Comment; !g.localAmbig[phi.Comment] && g.ghostSorts[gn] != "" && g.ghostSorts[gn] == g.st.sortOf(phi.Type()) {
			g.cur.ghost[gn] = c
		}
	}
	// counters: a phi whose every back-edge value is "itself plus a constant" moves in
	// lock step with every other such phi.  The relations below are inductive by
	// construction (each iteration adds the same constants), so they are assumed at the
	// header without a proof obligation.  They make an invariant written over one
	// counter survive a rewrite that introduces a second one (for x < n {x++} versus
	// for i := 0; i < n; i++ {x++}).
	{
		type ctr struct {
			cur, entry string
			step       int64
		}
		var ctrs []ctr
		li.iterT = g.freshConst(fmt.Sprintf("niter.L%d", li.idx), "Int")
		g.assume(sx(">=", li.iterT, "0"))
		if _, clash := hdrEnv["niter"]; !clash {
			hdrEnv["niter"] = &Val{T: li.iterT, Ty: intType}
		}
		ctrs = append(ctrs, ctr{li.iterT, "0", 1})
		for _, a := range li.iterAlias {
			hdrEnv[a] = &Val{T: sx("-", li.iterT, "1"), Ty: intType}
			if _, clash := g.env[a]; !clash || g.aliasEnv[a] {
				g.env[a] = hdrEnv[a]
				if g.aliasEnv == nil {
					g.aliasEnv = map[string]bool{}
				}
				g.aliasEnv[a] = true
			}
		}
		for pi, phi := range li.phis {
			step, ok := counterStep(li, phi)
			if !ok || step == 0 {
				continue
			}
			ev := entryEnv[names[pi]]
			if ev == nil || g.st.sortOf(phi.Type()) != "Int" {
				continue
			}
			c := ctr{g.vals[phi].T, ev.T, step}
			if step > 0 {
				g.assume(sx(">=", c.cur, c.entry))
			} else {
				g.assume(sx("<=", c.cur, c.entry))
			}
			for _, d := range ctrs {
				g.assume(eq(sx("*", smtInt(d.step), sx("-", c.cur, c.entry)), sx("*", smtInt(c.step), sx("-", d.cur, d.entry))))
			}
			ctrs = append(ctrs, c)
		}
	}
	g.inferPrefixInvariants(li, entryEnv, names)
	// loop variables named explicitly by the contract are visible to clauses
	// evaluated inside the loop body (call-site, store-site obligations)
	if li.spec != nil {
		for _, n := range names {
			if hv, ok := hdrEnv[n]; ok && n != "_" {
				explicit := false
				for _, sv := range li.spec.Vars {
					if sv == n || strings.HasPrefix(sv, n+"=") {
						explicit = true
					}
				}
				if _, clash := g.env[n]; !clash && explicit {
					g.env[n] = hv
				}
			}
		}
	}
	li.headerEnv = hdrEnv
	li.headerState = g.cur.clone()
	if li.spec != nil {
		sc := g.specCtx(hdrEnv, g.cur, g.init)
		for _, cl := range li.spec.Hints {
			t, err := sc.evalBool(cl.E)
			if err != nil {
				return fmt.Errorf("loop %d hint %s: %v", li.idx, cl.Src, err)
			}
			g.assume(t)
		}
		for _, cl := range li.spec.Invs {
			t, err := sc.evalBool(cl.E)
			if err != nil {
				return fmt.Errorf("loop %d invariant %s: %v", li.idx, cl.Src, err)
			}
			g.assume(t)
		}
		if li.spec.Decreases != nil {
			v, err := sc.eval(li.spec.Decreases.E)
			if err != nil {
				return fmt.Errorf("loop %d decreases: %v", li.idx, err)
			}
			li.variantAtHeader = v.T
		}
		// cover: invariant and reachability must be jointly satisfiable
		cv := g.oblige("cover", fmt.Sprintf("L%d", li.idx), "false", g.loopPos(li), "loop invariant is satisfiable at the header")
		cv.Must = "sat"
	}
	return nil
}

func (g *Gen) closeLoop(li *loopInfo, q *ssa.BasicBlock, si int) error {
	b := li.header
	st := g.out[q]
	c := g.edgeCond(q, si)
	// soundness self-check: everything the body changed must be in the havoc set
	for comp, t := range st.heap {
		if strings.HasPrefix(comp, "local.in") {
			continue // private memory of one inlined call: allocated and dead within the call
		}
		if !li.modSet[comp] && g.heapTerm(li.headerState, comp) != t {
			return fmt.Errorf("internal: loop %d body writes component %s that is not in its computed write set", li.idx, comp)
		}
	}
	for gh, t := range st.ghost {
		if strings.HasPrefix(gh, "$local:") {
			continue
		}
		if !li.ghostSet[gh] && g.ghostTerm(li.headerState, gh) != t {
			return fmt.Errorf("internal: loop %d body writes ghost %s that is not in its computed write set", li.idx, gh)
		}
	}
	if g.con != nil && g.con.HasMod {
		allowed := g.frameTargets()
		saveGuard, saveCur := g.curGuard, g.cur
		g.curGuard, g.cur = c, st
		var lfAll []string
		var lfNames []string
		for _, comp := range sortedKeys(li.modSet) {
			hq := g.heapTerm(st, comp)
			hp := g.heapTerm(li.preState, comp)
			if hq == hp {
				continue
			}
			fr := g.freshConst("fr", "Int")
			conds := []string{sx("<", sx("root", fr), "brk0")}
			for _, t := range allowed[comp] {
				conds = append(conds, t.outside(fr))
			}
			lfAll = append(lfAll, imp(and(conds...), eq(sel(hq, fr), sel(hp, fr))))
			lfNames = append(lfNames, comp)
		}
		if len(lfAll) > 0 {
			g.oblige("loop-frame", fmt.Sprintf("L%d:b%d", li.idx, q.Index), and(lfAll...), g.loopPos(li), "loop body writes only what the modifies clause allows: "+strings.Join(lfNames, ", "))
		}
		g.curGuard, g.cur = saveGuard, saveCur
	}
	if li.spec == nil {
		return nil
	}
	names := g.loopVarNames(li)
	env := map[string]*Val{}
	for k, v := range g.env {
		env[k] = v
	}
	qi := -1
	for i, p := range b.Preds {
		if p == q {
			qi = i
		}
	}
	if _, clash := env["niter"]; !clash && li.iterT != "" {
		env["niter"] = &Val{T: sx("+", li.iterT, "1"), Ty: intType}
	}
	for _, a := range li.iterAlias {
		env[a] = &Val{T: li.iterT, Ty: intType}
	}
	for pi, phi := range li.phis {
		env[names[pi]] = g.val(phi.Edges[qi])
	}
	saveGuard, saveCur := g.curGuard, g.cur
	g.curGuard, g.cur = g.reach[q], st
	defer func() { g.curGuard, g.cur = saveGuard, saveCur }()
	sc := g.specCtx(env, st, g.init)
	for _, cl := range li.spec.Hints {
		t, err := sc.evalBool(cl.E)
		if err != nil {
			return fmt.Errorf("loop %d hint %s: %v", li.idx, cl.Src, err)
		}
		g.assume(t) // guarded by the latch block's reachability: also visible on exit edges
	}
	g.curGuard = c
	for i, cl := range li.spec.Invs {
		t, err := sc.evalBool(cl.E)
		if err != nil {
			return fmt.Errorf("loop %d invariant %s: %v", li.idx, cl.Src, err)
		}
		label := cl.Label
		if label == "" {
			label = fmt.Sprintf("%d", i)
		}
		g.oblige("inv-preserve", fmt.Sprintf("L%d:%s:b%d", li.idx, label, q.Index), t, g.loopPos(li), cl.Src)
	}
	if li.spec.Decreases != nil {
		v, err := sc.eval(li.spec.Decreases.E)
		if err != nil {
			return fmt.Errorf("loop %d decreases: %v", li.idx, err)
		}
		g.oblige("variant", fmt.Sprintf("L%d:b%d", li.idx, q.Index), and(sx("<=", "0", li.variantAtHeader), sx("<", v.T, li.variantAtHeader)), g.loopPos(li), li.spec.Decreases.Src)
	}
	return nil
}

// loopMods computes the heap components and ghosts the loop body may write.
func (g *Gen) loopMods(li *loopInfo) (comps []string, ghosts []string) {
	cs := map[string]bool{}
	gs := map[string]bool{}
	var bodyInstrs []ssa.Instruction
	for b := range li.blocks {
		bodyInstrs = append(bodyInstrs, b.Instrs...)
	}
	// instructions of helpers that will be inlined at calls in the body: their
	// calls and events are part of this function's history too
	var extra []ssa.Instruction
	var expand func(ins []ssa.Instruction, depth int)
	expand = func(ins []ssa.Instruction, depth int) {
		if depth > 3 {
			return
		}
		for _, in := range ins {
			if call, ok := in.(*ssa.Call); ok {
				if callee := call.Call.StaticCallee(); callee != nil && !call.Call.IsInvoke() && g.canInline(callee) {
					for _, cb := range callee.Blocks {
						extra = append(extra, cb.Instrs...)
						expand(cb.Instrs, depth+1)
					}
				}
			}
		}
	}
	expand(bodyInstrs, 1)
	inBody := len(bodyInstrs)
	bodyInstrs = append(bodyInstrs, extra...)
	for idx, in := range bodyInstrs {
		{
			if idx < inBody {
				for _, c := range g.eng.instrWrites(in, g) {
					cs[c] = true
				}
			}
			if dr, ok := in.(*ssa.DebugRef); ok && !dr.IsAddr {
				// GlobalDebug emits a DebugRef for every reference; the variable
				// changes in the loop only if it is bound to a value computed inside
				// the loop (a header phi or a body instruction)
				if id, ok := dr.Expr.(*ast.Ident); ok && id.Name != "_" {
					if xi, ok := dr.X.(ssa.Instruction); ok && li.blocks[xi.Block()] {
						if info := g.eng.typesInfo(g.fn); info != nil {
							if nm := g.localName[info.ObjectOf(id)]; nm != "" {
								gs["$local:"+nm] = true
							}
						}
					}
				}
			}
			if st, ok := in.(*ssa.Store); ok {
				if fn, _ := fieldNameOfAddr(st.Addr); fn != "" && g.selectors["$stored:"+fn] {
					gs["$stored:"+fn] = true
				}
			}
			if ld, ok := in.(*ssa.UnOp); ok && ld.Op == token.MUL {
				if fn, _ := fieldNameOfAddr(ld.X); fn != "" && g.selectors["$loaded:"+fn] {
					gs["$loaded:"+fn] = true
				}
			}
			for _, name := range instrEvents(in) {
				if g.selectors[name] {
					gs["$called:"+name] = true
					gs["$ok:"+name] = true
					gs["$count:"+name] = true
					for _, sn := range g.sinces {
						if sn[0] == name || sn[1] == name {
							gs["$since:"+sn[0]+"|"+sn[1]] = true
						}
					}
				}
				if fn, ok := strings.CutPrefix(name, "$send."); ok && g.selectors["$sent:"+fn] {
					gs["$sent:"+fn] = true
				}
			}
			var cc *ssa.CallCommon
			pfx := ""
			switch x := in.(type) {
			case *ssa.Call:
				cc = &x.Call
			case *ssa.Go:
				cc = &x.Call
				pfx = "go:"
			}
			if cc != nil {
				for _, name := range callNames(cc) {
					name = pfx + name
					if g.selectors[name] {
						gs["$called:"+name] = true
						gs["$ok:"+name] = true
						gs["$count:"+name] = true
						gs["$allok:"+name] = true
						for _, sn := range g.sinces {
							if sn[0] == name || sn[1] == name {
								gs["$since:"+sn[0]+"|"+sn[1]] = true
							}
						}
						for an := range g.argOfWanted {
							if strings.HasPrefix(an, "$arg:"+name+":") {
								gs[an] = true
							}
						}
						for en := range g.exportWanted {
							if strings.HasPrefix(en, "$exp:"+name+":") {
								gs[en] = true
							}
						}
						for gn, sp := range g.snaps {
							if sp.sel == name {
								if g.ghostSorts[gn] == "" {
									g.fail("at_call(%s, ...): first taken inside a loop (outside the supported subset)", sp.sel)
								}
								gs[gn] = true
							}
						}
						for sn := range g.sumlenWanted {
							if strings.HasPrefix(sn, "$sumlen:"+name+":") {
								gs[sn] = true
							}
						}
						rs := cc.Signature().Results()
						for ri := 0; ri < rs.Len(); ri++ {
							gn := fmt.Sprintf("$res:%s:%d", name, ri)
							gs[gn] = true
							if g.ghostSorts[gn] == "" {
								g.ghostSorts[gn] = g.st.sortOf(rs.At(ri).Type())
								if g.ghostTypes == nil {
									g.ghostTypes = map[string]types.Type{}
								}
								g.ghostTypes[gn] = rs.At(ri).Type()
							}
						}
					}
				}
			}
		}
	}
	// make sure all components exist
	for _, c := range sortedKeys(cs) {
		name := c
		if g.inlinePrefix != "" && strings.HasPrefix(c, "local.") && !strings.HasPrefix(c, "local.in") {
			// the private memory of this inlined call carries the call's prefix
			name = "local." + g.inlinePrefix + strings.TrimPrefix(c, "local.")
			delete(cs, c)
			cs[name] = true
		}
		if _, ok := g.comps[name]; !ok {
			if srt, ok := g.eng.compSorts[c]; ok {
				g.comp(name, srt(g))
			}
		}
	}
	return sortedKeys(cs), sortedKeys(gs)
}

// collectSelectors finds the call selectors whose history the contract mentions.
func (g *Gen) collectSelectors() {
	if g.con == nil {
		return
	}
	seenDef := map[string]bool{}
	var walk func(e *SExpr)
	walk = func(e *SExpr) {
		if e == nil {
			return
		}
		if e.Kind == SCall && (e.Name == "called" || e.Name == "succeeded" || e.Name == "count" || e.Name == "allok") && len(e.Args) == 1 {
			g.selectors[selName(e.Args[0])] = true
		}
		if e.Kind == SCall && e.Name == "since" && len(e.Args) == 2 {
			pair := [2]string{selName(e.Args[0]), selName(e.Args[1])}
			dup := false
			for _, p := range g.sinces {
				if p == pair {
					dup = true
				}
			}
			if !dup {
				g.sinces = append(g.sinces, pair)
			}
			g.selectors[selName(e.Args[0])] = true
			g.selectors[selName(e.Args[1])] = true
		}
		if e.Kind == SCall && e.Name == "stored" && len(e.Args) == 1 {
			g.selectors["$stored:"+selName(e.Args[0])] = true
		}
		if e.Kind == SCall && e.Name == "at_call" && len(e.Args) == 2 {
			g.selectors[selName(e.Args[0])] = true
			if g.snaps == nil {
				g.snaps = map[string]snapSpec{}
			}
			g.snaps[snapName(selName(e.Args[0]), e.Args[1])] = snapSpec{selName(e.Args[0]), e.Args[1]}
		}
		if e.Kind == SCall && e.Name == "loaded" && len(e.Args) == 1 {
			g.selectors["$loaded:"+selName(e.Args[0])] = true
		}
		if e.Kind == SCall && e.Name == "sent" && len(e.Args) == 1 {
			g.selectors["$sent:"+selName(e.Args[0])] = true
		}
		if e.Kind == SCall && e.Name == "result_of" && len(e.Args) == 2 {
			g.selectors[selName(e.Args[0])] = true
		}
		if e.Kind == SCall && e.Name == "exported" && len(e.Args) == 2 {
			g.selectors[selName(e.Args[0])] = true
			if g.exportWanted == nil {
				g.exportWanted = map[string]bool{}
			}
			g.exportWanted[fmt.Sprintf("$exp:%s:%s", selName(e.Args[0]), selName(e.Args[1]))] = true
		}
		if e.Kind == SCall && e.Name == "sumlen" && len(e.Args) == 2 {
			g.selectors[selName(e.Args[0])] = true
			if g.sumlenWanted == nil {
				g.sumlenWanted = map[string]bool{}
			}
			g.sumlenWanted[fmt.Sprintf("$sumlen:%s:%s", selName(e.Args[0]), e.Args[1].Name)] = true
		}
		if e.Kind == SCall && e.Name == "arg_of" && len(e.Args) == 2 {
			g.selectors[selName(e.Args[0])] = true
			if g.argOfWanted == nil {
				g.argOfWanted = map[string]bool{}
			}
			g.argOfWanted[fmt.Sprintf("$arg:%s:%s", selName(e.Args[0]), e.Args[1].Name)] = true
		}
		if e.Kind == SCall {
			if d, ok := g.eng.defs[e.Name]; ok && d.Body != nil && !seenDef[e.Name] {
				seenDef[e.Name] = true
				walk(d.Body)
			}
		}
		walk(e.X)
		walk(e.Y)
		walk(e.Lo)
		walk(e.Hi)
		for _, a := range e.Args {
			walk(a)
		}
	}
	// history mentioned by the creation-time conditions of this function's closures
	for _, cc := range g.eng.contracts {
		if cc.Closure == nil || len(cc.Created) == 0 {
			continue
		}
		if fn, err := g.eng.resolveClosure(cc); err == nil && fn != nil {
			for p := fn.Parent(); p != nil; p = p.Parent() {
				if p == g.fn {
					for _, cl := range cc.Created {
						walk(cl.E)
					}
				}
			}
		}
	}
	for _, k := range sortedKeys(g.con.Lets) {
		walk(g.con.Lets[k])
	}
	for _, cl := range g.con.Requires {
		walk(cl.E)
	}
	for _, cl := range g.con.Ensures {
		walk(cl.E)
	}
	for _, cs := range g.con.Calls {
		walk(cs.Cl.E)
	}
	for _, cs := range g.con.Stores {
		walk(cs.Cl.E)
	}
	for _, cs := range g.con.Sends {
		walk(cs.Cl.E)
	}
	for _, l := range g.con.Loops {
		for _, cl := range l.Invs {
			walk(cl.E)
		}
	}
}

func selName(e *SExpr) string {
	switch e.Kind {
	case SStr, SIdent:
		return e.Name
	}
	return e.String()
}

var _ = types.Typ

// counterStep: phi is a counter of the loop if on every back edge its value is
// phi + c or phi - c for one constant c.
func counterStep(li *loopInfo, phi *ssa.Phi) (int64, bool) {
	b := li.header
	var step int64
	seen := false
	for i, p := range b.Preds {
		if !isBackEdge(p, b) {
			continue
		}
		bo, ok := phi.Edges[i].(*ssa.BinOp)
		if !ok || (bo.Op != token.ADD && bo.Op != token.SUB) {
			return 0, false
		}
		var k *ssa.Const
		switch {
		case bo.X == ssa.Value(phi):
			k, _ = bo.Y.(*ssa.Const)
		case bo.Y == ssa.Value(phi) && bo.Op == token.ADD:
			k, _ = bo.X.(*ssa.Const)
		}
		if k == nil || k.Value == nil || k.Value.Kind() != constant.Int {
			return 0, false
		}
		c, exact := constant.Int64Val(k.Value)
		if !exact {
			return 0, false
		}
		if bo.Op == token.SUB {
			c = -c
		}
		if seen && c != step {
			return 0, false
		}
		step, seen = c, true
	}
	return step, seen
}

func smtInt(n int64) string {
	if n < 0 {
		return fmt.Sprintf("(- %d)", -n)
	}
	return fmt.Sprintf("%d", n)
}
