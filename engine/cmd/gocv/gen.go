package main

// VC generation core: symbolic state over a component-indexed heap
// (Burstall-Bornat: one SMT array per struct field / element type), block-wise
// forward execution of go/ssa with state merging at joins and loops cut at
// headers (havoc of the loop's write set + assumed invariant).

import (
	"fmt"
	"go/token"
	"go/types"
	"sort"
	"strings"

	"golang.org/x/tools/go/ssa"
)

type Val struct {
	T     string // SMT term
	Ty    types.Type
	LV    *Loc   // pointer to a scalar location tracked at generation time
	Tuple []*Val // tuple-typed values
	Fn    *ssa.Function
	Binds []*Val
	Boxed *Val // for interface values made by MakeInterface: the boxed operand
	StructLoc bool // spec only: T is the address of a struct-typed location (field or element)
}

// Loc is a scalar heap location: H[Comp][Ref] or H[Comp][Ref][Idx].
type Loc struct {
	Comp string
	Ref  string
	Idx  string
	Ty   types.Type // type of the value stored at the location
}

type CompInfo struct {
	Name string
	Sort string // sort of the value stored per ref (for indexed comps an array sort)
}

type State struct {
	heap  map[string]string
	ghost map[string]string
}

func (s *State) clone() *State {
	n := &State{heap: make(map[string]string, len(s.heap)), ghost: make(map[string]string, len(s.ghost))}
	for k, v := range s.heap {
		n.heap[k] = v
	}
	for k, v := range s.ghost {
		n.ghost[k] = v
	}
	return n
}

type Obligation struct {
	Name    string
	Kind    string // safety kind, pre, post, inv-entry, inv-preserve, variant, call, frame
	Fn      string
	Guard   string
	Formula string
	CtxLen  int
	Pos     token.Position
	Src     string // clause text
	Result  *SolveResult
	Must    string // "" normal (expect unsat of negation); "sat" = cover query expected sat
}

type Gen struct {
	eng   *Engine
	fn    *ssa.Function
	con   *Contract
	st    *sortTable
	decls []string
	ctx   []string
	vals  map[ssa.Value]*Val
	comps map[string]*CompInfo
	obls  []*Obligation
	reach map[*ssa.BasicBlock]string
	out   map[*ssa.BasicBlock]*State
	edge  map[[2]int]string // (pred index, succ index) -> edge condition term (includes reach)
	nfresh int
	init  *State
	env   map[string]*Val
	strs  map[string]int
	ghostSorts map[string]string
	abstracted []string
	assumptions []string
	defers []*ssa.Defer
	loops  []*loopInfo
	headerOf map[*ssa.BasicBlock]*loopInfo
	callSelCount map[string]int
	cur   *State // state while executing a block
	curBlock *ssa.BasicBlock
	curGuard string
	safety map[string]bool
	fnName string
	selectors map[string]bool // selectors whose call history is tracked as ghost state
	retCount int
	allowedTargets map[string][]frameTarget
	lemmasUsed map[string]bool
	declared map[string]bool
	sinces   [][2]string
	argOfWanted map[string]bool
	sumlenWanted map[string]bool
	// at_call(sel, expr) snapshots: ghost name -> (selector, expression)
	snaps map[string]snapSpec
	localsNamed map[string]bool // source locals the contract refers to by name (a rename breaks the contract)
	aliasEnv map[string]bool // env names introduced as niter-1 aliases (may be rebound by a later loop)
	// inferred loop facts (reported in the evidence)
	inferred []string
	exportWanted map[string]bool
	inlineStack []*ssa.Function
	inlinePrefix string // unique per inlined call instance (value names must not collide with the caller's)
	inlineRets  *[]inlineRet
	inlineEntry *State
	entryGuard  string
	memLocals map[string]bool
	localRefs map[string]string // ref term of a non-escaping local alloc (and its sub-objects) -> component prefix
	ghostTypes map[string]types.Type
	localTypes map[string]types.Type // $local:<name> -> Go type
	localAddr  map[string]*Val       // locals that live in memory: pointer to the cell
	localObjs  map[string]types.Object
	localAmbig map[string]bool
	localName  map[types.Object]string
}

type loopInfo struct {
	idx     int
	iterT   string // the header value of niter (completed iterations)
	header  *ssa.BasicBlock
	blocks  map[*ssa.BasicBlock]bool
	backPreds []*ssa.BasicBlock
	spec    *LoopSpec
	phis    []*ssa.Phi
	bindErr string
	iterAlias []string // names bound with name=rangeindex on a loop that has no range index: niter - 1
	headerState *State
	headerEnv map[string]*Val
	variantAtHeader string
	modSet map[string]bool
	preState *State
	ghostSet map[string]bool
}

func (g *Gen) freshName(prefix string) string {
	g.nfresh++
	return fmt.Sprintf("%s!%d", prefix, g.nfresh)
}

func (g *Gen) declare(name, sort string) string {
	q := quoteID(name)
	g.decls = append(g.decls, fmt.Sprintf("(declare-fun %s () %s)", q, sort))
	return q
}

func (g *Gen) freshConst(prefix, sort string) string {
	return g.declare(g.freshName(prefix), sort)
}

func (g *Gen) assert(f string) {
	if f == "true" {
		return
	}
	g.ctx = append(g.ctx, "(assert "+f+")")
}

// assume adds an assumption that holds when the current point is reached.
func (g *Gen) assume(f string) {
	g.assert(imp(g.curGuard, f))
}

func (g *Gen) abstract(what string, pos token.Pos) {
	p := g.eng.fset.Position(pos)
	g.abstracted = append(g.abstracted, fmt.Sprintf("%s at %s:%d", what, shortFile(p.Filename), p.Line))
}

func shortFile(f string) string {
	return strings.TrimPrefix(f, "/repo/")
}

func (g *Gen) oblige(kind, label, formula string, pos token.Pos, src string) *Obligation {
	if !g.kindEnabled(kind) {
		return nil
	}
	o := &Obligation{
		Kind: kind, Fn: g.fnName, Guard: g.curGuard, Formula: formula,
		CtxLen: len(g.ctx), Pos: g.eng.fset.Position(pos), Src: src,
	}
	o.Name = g.fnName + "#" + kind
	if label != "" {
		o.Name += ":" + label
	}
	// make unique
	base := o.Name
	n := 1
	for g.hasObl(o.Name) {
		n++
		o.Name = fmt.Sprintf("%s~%d", base, n)
	}
	g.obls = append(g.obls, o)
	return o
}

func (g *Gen) hasObl(name string) bool {
	for _, o := range g.obls {
		if o.Name == name {
			return true
		}
	}
	return false
}

func (g *Gen) kindEnabled(kind string) bool {
	if len(g.inlineStack) > 0 {
		switch kind {
		case "bounds", "nil", "div", "assert", "panic", "mapwrite", "makeslice", "nilcall", "cover":
			return false
		}
	}
	switch kind {
	case "bounds", "nil", "div", "assert", "panic", "mapwrite", "makeslice", "nilcall":
		return g.safety[kind]
	}
	return true
}

// ------------------------------------------------------------ components

func (g *Gen) comp(name, valueSort string) *CompInfo {
	if c, ok := g.comps[name]; ok {
		return c
	}
	c := &CompInfo{Name: name, Sort: valueSort}
	g.comps[name] = c
	g.decls = append(g.decls, fmt.Sprintf("(declare-fun %s () (Array Int %s))", g.compConst(name, "0"), valueSort))
	return c
}

func (g *Gen) compConst(name, ver string) string {
	return quoteID("H." + name + "." + ver)
}

func (g *Gen) heapTerm(s *State, comp string) string {
	if t, ok := s.heap[comp]; ok {
		return t
	}
	return g.compConst(comp, "0")
}

func (g *Gen) newHeapVersion(comp string) string {
	c := g.comps[comp]
	n := g.freshName("H." + comp)
	q := quoteID(n)
	g.decls = append(g.decls, fmt.Sprintf("(declare-fun %s () (Array Int %s))", q, c.Sort))
	return q
}

// compOfLocType returns the component info for a scalar location of type t
// named name.
func (g *Gen) scalarComp(name string, t types.Type) *CompInfo {
	return g.comp(name, g.st.sortOf(t))
}

func structTypeName(t types.Type) string {
	return typeKey(t)
}

func fieldComp(structT types.Type, fname string) string {
	return structTypeName(structT) + "." + fname
}

func elemComp(elem types.Type) string {
	return "[]" + typeKey(elem)
}

func cellComp(t types.Type) string {
	return "cell:" + typeKey(t)
}

func isStruct(t types.Type) bool {
	_, ok := t.Underlying().(*types.Struct)
	return ok
}

func isArray(t types.Type) bool {
	_, ok := t.Underlying().(*types.Array)
	return ok
}

func (g *Gen) fieldID(structT types.Type, fname string) string {
	k := "fld:" + fieldComp(structT, fname)
	id, ok := g.strs[k]
	if !ok {
		id = len(g.strs) + 1
		g.strs[k] = id
	}
	return fmt.Sprintf("%d", id)
}

// readLoc loads the value at a scalar location.
func (g *Gen) readLoc(s *State, l *Loc) string {
	if isArray(l.Ty) && l.Idx == "" {
		// whole array value stored as an element-array entry
		at := l.Ty.Underlying().(*types.Array)
		c := g.comp(g.localRefs[l.Ref]+elemComp(at.Elem()), "(Array Int "+g.st.sortOf(at.Elem())+")")
		return sel(g.heapTerm(s, c.Name), l.Ref)
	}
	if l.Idx != "" {
		c := g.comp(l.Comp, "(Array Int "+g.st.sortOf(l.Ty)+")")
		return sel(sel(g.heapTerm(s, c.Name), l.Ref), l.Idx)
	}
	c := g.scalarComp(l.Comp, l.Ty)
	return sel(g.heapTerm(s, c.Name), l.Ref)
}

func (g *Gen) writeLoc(s *State, l *Loc, v string) {
	if isArray(l.Ty) && l.Idx == "" {
		at := l.Ty.Underlying().(*types.Array)
		c := g.comp(g.localRefs[l.Ref]+elemComp(at.Elem()), "(Array Int "+g.st.sortOf(at.Elem())+")")
		g.setHeap(s, c.Name, store(g.heapTerm(s, c.Name), l.Ref, v))
		return
	}
	if l.Idx != "" {
		c := g.comp(l.Comp, "(Array Int "+g.st.sortOf(l.Ty)+")")
		h := g.heapTerm(s, c.Name)
		g.setHeap(s, c.Name, store(h, l.Ref, store(sel(h, l.Ref), l.Idx, v)))
		return
	}
	c := g.scalarComp(l.Comp, l.Ty)
	g.setHeap(s, c.Name, store(g.heapTerm(s, c.Name), l.Ref, v))
}

// setHeap names the new heap term with a fresh constant to keep terms small.
func (g *Gen) setHeap(s *State, comp, term string) {
	n := g.newHeapVersion(comp)
	g.assert(eq(n, term))
	s.heap[comp] = n
}

// locOfField gives the location (or sub-object ref) of field i of the struct at ref.
func (g *Gen) fieldOf(ref string, structT types.Type, i int) (loc *Loc, subref string, ft types.Type) {
	u := structT.Underlying().(*types.Struct)
	f := u.Field(i)
	ft = f.Type()
	pfx := g.localRefs[ref]
	if isStruct(ft) || isArray(ft) {
		subref = sx("fld", g.fieldID(structT, fieldName(u, i)), ref)
		if pfx != "" {
			g.localRefs[subref] = pfx
		}
		if isArray(ft) {
			return &Loc{Comp: "", Ref: subref, Ty: ft}, subref, ft
		}
		return nil, subref, ft
	}
	return &Loc{Comp: pfx + fieldComp(structT, fieldName(u, i)), Ref: ref, Ty: ft}, "", ft
}

// loadStruct builds the struct value stored at ref.
func (g *Gen) loadStruct(s *State, ref string, t types.Type) string {
	u := t.Underlying().(*types.Struct)
	var fs []string
	for i := 0; i < u.NumFields(); i++ {
		loc, sub, ft := g.fieldOf(ref, t, i)
		switch {
		case isStruct(ft):
			fs = append(fs, g.loadStruct(s, sub, ft))
		default:
			fs = append(fs, g.readLoc(s, loc))
		}
	}
	return g.st.mkStruct(t, fs)
}

func (g *Gen) storeStruct(s *State, ref string, t types.Type, v string) {
	u := t.Underlying().(*types.Struct)
	for i := 0; i < u.NumFields(); i++ {
		loc, sub, ft := g.fieldOf(ref, t, i)
		fv := sx(g.st.fieldSel(t, i), v)
		switch {
		case isStruct(ft):
			g.storeStruct(s, sub, ft, fv)
		default:
			g.writeLoc(s, loc, fv)
		}
	}
}

// load reads through a pointer value.
func (g *Gen) load(s *State, p *Val, elemT types.Type) string {
	if isStruct(elemT) {
		return g.loadStruct(s, p.T, elemT)
	}
	return g.readLoc(s, g.locOfPtr(p, elemT))
}

func (g *Gen) locOfPtr(p *Val, elemT types.Type) *Loc {
	if p.LV != nil {
		return p.LV
	}
	if isArray(elemT) {
		return &Loc{Ref: p.T, Ty: elemT}
	}
	return &Loc{Comp: g.localRefs[p.T] + cellComp(elemT), Ref: p.T, Ty: elemT}
}

func (g *Gen) storeThrough(s *State, p *Val, elemT types.Type, v string) {
	if isStruct(elemT) {
		g.storeStruct(s, p.T, elemT, v)
		return
	}
	g.writeLoc(s, g.locOfPtr(p, elemT), v)
}

// ------------------------------------------------------------ ghosts

func (g *Gen) ghostTerm(s *State, name string) string {
	if t, ok := s.ghost[name]; ok {
		return t
	}
	if strings.HasPrefix(name, "$allok:") {
		return "true"
	}
	switch g.ghostSort(name) {
	case "Bool":
		return "false"
	}
	if name == "$brk" {
		return "brk0"
	}
	if strings.HasPrefix(name, "$allok:") {
		return "true"
	}
	if srt := g.ghostSorts[name]; srt != "" && srt != "Int" && srt != "Bool" {
		// an arbitrary but fixed default value of that sort
		dn := "ghostdefault." + sanitize(srt)
		if !g.declared[dn] {
			if g.declared == nil {
				g.declared = map[string]bool{}
			}
			g.declared[dn] = true
			g.declare(dn, srt)
		}
		return quoteID(dn)
	}
	return "0"
}

func (g *Gen) ghostSort(name string) string {
	if s, ok := g.ghostSorts[name]; ok {
		return s
	}
	switch {
	case strings.HasPrefix(name, "$allok:"), strings.HasPrefix(name, "$called:"), strings.HasPrefix(name, "$ok:"), strings.HasPrefix(name, "$defer:"), strings.HasPrefix(name, "$stored:"):
		g.ghostSorts[name] = "Bool"
		return "Bool"
	}
	g.ghostSorts[name] = "Int"
	return "Int"
}

// alloc returns a fresh object reference.
func (g *Gen) alloc(s *State) string {
	r := g.freshConst("a", "Int")
	b := g.ghostTerm(s, "$brk")
	g.assert(eq(r, b))
	s.ghost["$brk"] = sx("+", b, "1")
	return r
}

// ------------------------------------------------------------ merging

type inEdge struct {
	cond string // full edge condition (reach of pred and branch condition)
	st   *State
}

func (g *Gen) mergeStates(b *ssa.BasicBlock, ins []inEdge) *State {
	if len(ins) == 0 {
		return &State{heap: map[string]string{}, ghost: map[string]string{}}
	}
	if len(ins) == 1 {
		return ins[0].st.clone()
	}
	res := &State{heap: map[string]string{}, ghost: map[string]string{}}
	comps := map[string]bool{}
	ghosts := map[string]bool{}
	for _, e := range ins {
		for k := range e.st.heap {
			comps[k] = true
		}
		for k := range e.st.ghost {
			ghosts[k] = true
		}
	}
	for _, k := range sortedKeys(comps) {
		first := g.heapTerm(ins[0].st, k)
		same := true
		for _, e := range ins[1:] {
			if g.heapTerm(e.st, k) != first {
				same = false
			}
		}
		if same {
			if _, ok := ins[0].st.heap[k]; ok {
				res.heap[k] = first
			}
			continue
		}
		t := g.heapTerm(ins[len(ins)-1].st, k)
		for i := len(ins) - 2; i >= 0; i-- {
			t = ite(ins[i].cond, g.heapTerm(ins[i].st, k), t)
		}
		n := g.newHeapVersion(k)
		g.assert(eq(n, t))
		res.heap[k] = n
	}
	for _, k := range sortedKeys(ghosts) {
		if strings.HasPrefix(k, "$local:") {
			// a source variable is only known after a join if every path defines it
			all := true
			for _, e := range ins {
				if _, ok := e.st.ghost[k]; !ok {
					all = false
				}
			}
			if !all {
				continue
			}
		}
		first := g.ghostTerm(ins[0].st, k)
		same := true
		for _, e := range ins[1:] {
			if g.ghostTerm(e.st, k) != first {
				same = false
			}
		}
		if same {
			res.ghost[k] = first
			continue
		}
		t := g.ghostTerm(ins[len(ins)-1].st, k)
		for i := len(ins) - 2; i >= 0; i-- {
			t = ite(ins[i].cond, g.ghostTerm(ins[i].st, k), t)
		}
		n := g.freshConst("g."+strings.TrimPrefix(k, "$"), g.ghostSort(k))
		g.assert(eq(n, t))
		res.ghost[k] = n
	}
	return res
}

// ------------------------------------------------------------ CFG helpers

// rpo returns blocks in reverse postorder ignoring back edges.
func rpo(fn *ssa.Function) []*ssa.BasicBlock {
	seen := map[*ssa.BasicBlock]bool{}
	var order []*ssa.BasicBlock
	var dfs func(b *ssa.BasicBlock)
	dfs = func(b *ssa.BasicBlock) {
		seen[b] = true
		for _, s := range b.Succs {
			if !seen[s] {
				dfs(s)
			}
		}
		order = append(order, b)
	}
	dfs(fn.Blocks[0])
	for i, j := 0, len(order)-1; i < j; i, j = i+1, j-1 {
		order[i], order[j] = order[j], order[i]
	}
	return order
}

func isBackEdge(p, h *ssa.BasicBlock) bool {
	return h.Dominates(p)
}

// findLoops finds natural loops, ordered by source position of the header.
func (g *Gen) findLoops() error {
	fn := g.fn
	g.headerOf = map[*ssa.BasicBlock]*loopInfo{}
	reach := map[*ssa.BasicBlock]bool{}
	for _, b := range rpo(fn) {
		reach[b] = true
	}
	for _, b := range fn.Blocks {
		if !reach[b] {
			continue
		}
		for _, s := range b.Succs {
			if isBackEdge(b, s) {
				li := g.headerOf[s]
				if li == nil {
					li = &loopInfo{header: s, blocks: map[*ssa.BasicBlock]bool{s: true}}
					g.headerOf[s] = li
					g.loops = append(g.loops, li)
				}
				li.backPreds = append(li.backPreds, b)
				// natural loop body
				stack := []*ssa.BasicBlock{b}
				for len(stack) > 0 {
					x := stack[len(stack)-1]
					stack = stack[:len(stack)-1]
					if li.blocks[x] {
						continue
					}
					li.blocks[x] = true
					for _, p := range x.Preds {
						if reach[p] {
							stack = append(stack, p)
						}
					}
				}
			}
		}
	}
	// check reducibility: every retreating edge in a DFS must be a back edge
	order := map[*ssa.BasicBlock]int{}
	for i, b := range rpo(fn) {
		order[b] = i
	}
	for _, b := range fn.Blocks {
		if !reach[b] {
			continue
		}
		for _, s := range b.Succs {
			if order[s] <= order[b] && !isBackEdge(b, s) {
				return fmt.Errorf("irreducible control flow (edge %d->%d)", b.Index, s.Index)
			}
		}
	}
	sort.Slice(g.loops, func(i, j int) bool {
		return g.loopPos(g.loops[i]) < g.loopPos(g.loops[j])
	})
	for i, l := range g.loops {
		l.idx = i
		if g.con != nil && len(g.inlineStack) == 0 {
			l.spec = g.con.Loops[i]
		}
		if len(g.inlineStack) > 0 {
			// a loop of an inlined helper: no contract clause can refer to it
			l.idx = 1000*len(g.inlineStack) + i
		}
		for _, in := range l.header.Instrs {
			if p, ok := in.(*ssa.Phi); ok {
				l.phis = append(l.phis, p)
			}
		}
	}
	return nil
}

// loopPos orders loops by the smallest source position found in the loop.
func (g *Gen) loopPos(l *loopInfo) token.Pos {
	best := token.Pos(1 << 40)
	for b := range l.blocks {
		for _, in := range b.Instrs {
			if p := in.Pos(); p.IsValid() && p < best {
				best = p
			}
		}
	}
	return best
}

// noteLemmaUse records the lemma_* macros a hint instantiates.
func (g *Gen) noteLemmaUse(e *SExpr) {
	if e == nil {
		return
	}
	if g.lemmasUsed == nil {
		g.lemmasUsed = map[string]bool{}
	}
	if e.Kind == SCall && strings.HasPrefix(e.Name, "lemma_") {
		g.lemmasUsed[e.Name] = true
	}
	g.noteLemmaUse(e.X)
	g.noteLemmaUse(e.Y)
}

type snapSpec struct {
	sel string
	e   *SExpr
}

func snapName(sel string, e *SExpr) string {
	return "$snap:" + sel + "|" + e.String()
}

// takeSnapshots: right before a call matching sel, at_call(sel, E) records the value
// E has in that (pre-call) state.
func (g *Gen) takeSnapshots(c *ssa.CallCommon, prefix string) {
	if len(g.snaps) == 0 {
		return
	}
	for _, name := range callNames(c) {
		name = prefix + name
		for _, gn := range sortedKeys(g.snaps) {
			sp := g.snaps[gn]
			if sp.sel != name {
				continue
			}
			sc := g.specCtx(g.env, g.cur, g.init)
			v, err := sc.eval(sp.e)
			if err != nil {
				g.fail("at_call(%s, %s): %v", sp.sel, sp.e, err)
				continue
			}
			if v.StructLoc {
				// a struct-typed location: the snapshot is of its contents
				st, _ := derefStruct(v.Ty)
				v = &Val{T: g.loadStruct(g.cur, v.T, st), Ty: st}
			}
			if v.T == "" || v.Ty == nil {
				g.fail("at_call(%s, %s): the expression has no scalar value", sp.sel, sp.e)
				continue
			}
			g.ghostSorts[gn] = g.st.sortOf(v.Ty)
			if g.ghostTypes == nil {
				g.ghostTypes = map[string]types.Type{}
			}
			g.ghostTypes[gn] = v.Ty
			g.cur.ghost[gn] = v.T
		}
	}
}

func (g *Gen) noteLocalNamed(name string) {
	if g.localsNamed == nil {
		g.localsNamed = map[string]bool{}
	}
	g.localsNamed[name] = true
}
