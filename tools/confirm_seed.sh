#!/bin/bash
# tools/confirm_seed.sh <PROP> <variant> <srcdir>
# Confirms a candidate property-breaking change independently in a scratch
# worktree of the PINNED commit (outside /repo and /verif), then stores it under
# /verif/seeded/<PROP>-<variant>/ with meta.json.  The worktree is removed.
set -u
PROP=$1; VAR=$2; SRC=$3
. /verif/env.sh
WT=/var/tmp/seedwt.$$
PIN=${4:-66eea0b}
git -C /repo worktree add -q --detach $WT $PIN || exit 2
trap 'git -C /repo worktree remove --force $WT >/dev/null 2>&1' EXIT
cd $WT
DEMO=$(ls $SRC/*_test.go 2>/dev/null | head -1)
[ -z "$DEMO" ] && { echo "no demo test in $SRC"; exit 2; }
# where does the demo go / which command: parse DEMO.md
PKGDIR=$(grep -oE 'pkg/[A-Za-z0-9_/.-]+/' $SRC/DEMO.md | head -1)
RUNPAT=$(grep -oE "\-run '?[A-Za-z0-9_|^$]+'?" $SRC/DEMO.md | head -1 | sed "s/-run //; s/'//g")
[ -z "$PKGDIR" ] && { echo "cannot find package dir in DEMO.md"; exit 2; }
PKGS=$(grep -E '^\+\+\+ b/' $SRC/patch.diff | sed 's|+++ b/||' | xargs -n1 dirname | sort -u | sed 's|^|./|')
res() { echo "$1"; }
# 1. demo passes on pinned code
cp $DEMO $PKGDIR/
go test -vet=off -count=1 -timeout 10m -run "$RUNPAT" ./$PKGDIR > /var/tmp/seed.$$.base.log 2>&1; BASE=$?
# 2. apply change: build + existing tests of touched packages (without the demo)
rm -f $PKGDIR/$(basename $DEMO)
git apply $SRC/patch.diff || { echo "patch does not apply"; exit 2; }
go build ./... > /var/tmp/seed.$$.build.log 2>&1; BUILD=$?
go test -vet=off -count=1 -timeout 20m $PKGS > /var/tmp/seed.$$.tests.log 2>&1; TESTS=$?
# 3. demo fails with the change
cp $DEMO $PKGDIR/
go test -vet=off -count=1 -timeout 10m -run "$RUNPAT" ./$PKGDIR > /var/tmp/seed.$$.mut.log 2>&1; MUT=$?
OK=no
if [ $BASE -eq 0 ] && [ $BUILD -eq 0 ] && [ $TESTS -eq 0 ] && [ $MUT -ne 0 ]; then OK=yes; fi
echo "$PROP-$VAR: demo_on_pinned=$BASE build=$BUILD existing_tests=$TESTS demo_with_change=$MUT confirmed=$OK"
if [ $OK = yes ]; then
  D=/verif/seeded/$PROP-$VAR; mkdir -p $D
  cp $SRC/patch.diff $D/patch.diff; cp $DEMO $D/$(basename $DEMO).txt; cp $SRC/NOTES.md $D/NOTES.md 2>/dev/null; cp $SRC/DEMO.md $D/DEMO.md
  python3 - "$PROP" "$VAR" "$PKGDIR" "$RUNPAT" "$PKGS" "$D" "$(git -C /repo rev-parse --short $PIN)" <<'PY'
import json,sys
prop,var,pkgdir,runpat,pkgs,d,pin=sys.argv[1:]
notes=open(d+'/NOTES.md').read() if True else ''
json.dump({"property":prop,"variant":var,"breaks":prop,"source":"independent sub-agent given only the property text and a scratch worktree",
 "needs_to_manifest":"see NOTES.md","demo":{"copy_to":pkgdir,"run":"go test -vet=off -count=1 -run '%s' ./%s"%(runpat,pkgdir)},
 "confirmed":{"pinned_commit":pin,"demo_passes_on_pinned":True,"builds_with_change":True,"existing_tests_of_touched_packages_pass_with_change":pkgs.split(),"demo_fails_with_change":True},
 "detected_by":None},open(d+'/meta.json','w'),indent=1)
PY
fi
rm -f /var/tmp/seed.$$.*.log
