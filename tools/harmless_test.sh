#!/bin/bash
# tools/harmless_test.sh [-j N] [ID ...]
# Must-PASS corpus: behaviour-preserving refactorings (written by sub-agents that were
# given only a property's text) under /verif/harmless/<PROP>-<hN>/.  Each is applied to a
# scratch worktree of /repo's HEAD; the property's quick check must still exit 0.  An
# alarm here is a false alarm of the machinery (usually: a contract keyed on something
# the refactoring legitimately changed).  Results go to harmless/<id>/result.json.
set -u
cd /verif
J=3
if [ "${1:-}" = "-j" ]; then J=$2; shift 2; fi
want="$*"
ids=()
for d in harmless/*/; do id=$(basename $d); if [ -n "$want" ] && ! echo " $want " | grep -q " $id "; then continue; fi; ids+=($id); done
one() {
  id=$1; prop=${id%%-*}
  WT=/var/tmp/harmless.$$.$id
  git -C /repo worktree add -q --detach $WT HEAD || { echo "$id: cannot create worktree"; return; }
  if ! git -C $WT apply /verif/harmless/$id/patch.diff 2>/dev/null; then echo "$id: patch does not apply"; else
    out=$(VERIF_REPO=$WT VERIF_SCRATCH_OUT=$WT.out ${GOCV:-./bin/gocv} check $prop quick 2>&1); ex=$?
    python3 - "/verif/harmless/$id/result.json" "$prop" "$ex" "$(echo "$out" | grep '^VIOLATION' | head -5)" <<'PY'
import json,sys,re
p,prop,ex,out=sys.argv[1],sys.argv[2],int(sys.argv[3]),sys.argv[4]
obl=[re.sub(r'.*replay=\S*/','',l).split()[0].replace('.json','') for l in out.splitlines() if l.strip()]
json.dump({'check':prop+' quick','exit':ex,'alarms':obl},open(p,'w'),indent=1)
PY
    if [ $ex -eq 0 ]; then echo "$id: quiet"; else echo "$id: ALARM (exit $ex) $(echo "$out" | grep '^VIOLATION' | sed 's/.*replay=[^ ]*\///; s/ no-failing.*//' | head -3 | tr '\n' ' ')"; fi
  fi
  git -C /repo worktree remove --force $WT >/dev/null 2>&1; rm -rf $WT.out
}
export -f one
printf '%s\n' "${ids[@]}" | xargs -P $J -I{} bash -c 'one {}'
