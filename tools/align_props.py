#!/usr/bin/env python3
"""For every claimed property, make sure every function under contract that is DEFINED
IN ONE OF THE PROPERTY'S ANCHOR FILES is listed in props/<id>.json (a function carries
every property whose anchored code it belongs to).  Functions added here get the
non-safety obligation kinds; existing entries are left alone."""
import json, glob, os, subprocess, sys
V = os.path.dirname(os.path.dirname(os.path.abspath(__file__)))
props = {json.loads(l)['id']: json.loads(l) for l in open(V + '/properties.jsonl')}
KINDS = ["call", "post", "store", "send", "created", "cover", "pre", "inv-entry", "inv-preserve", "frame", "loop-frame", "variant"]
# contract key -> file, per package directory
pkgs = set()
for f in subprocess.run(['git', '-C', '/repo', 'ls-files'], capture_output=True, text=True).stdout.split():
    if f.endswith('zz_contracts_verif.go'):
        pkgs.add('./' + os.path.dirname(f))
where = {}
for p in sorted(pkgs):
    out = subprocess.run([V + '/bin/gocv', 'list', '-pkgs', p], capture_output=True, text=True).stdout
    for line in out.splitlines():
        parts = line.split('\t')
        if len(parts) >= 2 and parts[1] != '?' and (len(parts) < 3 or parts[2] != 'assumed'):
            where[parts[0]] = (parts[1], p)
changed = False
for f in sorted(glob.glob(V + '/props/*.json')):
    d = json.load(open(f))
    pid = d['id']
    files = set(props[pid]['anchors']['files'])
    dirs = {x for x in files if not x.endswith('.go')}
    have = {fn['key'] for fn in d['functions']}
    added = []
    for key, (file, pkg) in sorted(where.items()):
        infile = file in files or any(file.startswith(dd.rstrip('/') + '/') for dd in dirs)
        if infile and key not in have:
            d['functions'].append({'key': key, 'kinds': KINDS, 'note': 'defined in an anchor file of this property'})
            if pkg not in d['packages']:
                d['packages'].append(pkg)
            added.append(key.replace('github.com/conduitio/conduit/pkg/', ''))
    if added:
        # funnel functions need the C08 lemma file (Batch contracts use cntf)
        if any('lifecycle-poc/funnel' in a for a in added) and 'spec/C08.lemmas.smt2' not in d.setdefault('lemmas', []):
            d['lemmas'].append('spec/C08.lemmas.smt2')
        if any('lifecycle/stream.' in a and 'dlqWindow' in a for a in added) and 'spec/C07.lemmas.smt2' not in d.setdefault('lemmas', []):
            d['lemmas'].append('spec/C07.lemmas.smt2')
        json.dump(d, open(f, 'w'), indent=1)
        changed = True
        print(pid, 'added', len(added), ':', ', '.join(added))
if not changed:
    print('all aligned')
