#!/bin/bash
# tools/selftest.sh [-j N] [PROP ...]
# Must-fail corpus.  Every confirmed seeded change under /verif/seeded is applied to a
# SCRATCH worktree of /repo's HEAD (under /var/tmp, removed afterwards; /repo itself is
# never touched), the quick check of the property it breaks is run against that
# worktree (VERIF_REPO), and the outcome is recorded in seeded/<id>/meta.json.
# Then every check is run on the unchanged tree (/repo), which must exit 0.
set -u
cd /verif
J=3
if [ "${1:-}" = "-j" ]; then J=$2; shift 2; fi
want="$*"
ids=()
for d in seeded/*/; do
  id=$(basename $d); prop=${id%%-*}
  if [ -n "$want" ] && ! echo " $want " | grep -q " $prop "; then continue; fi
  [ -f props/$prop.json ] || { echo "$id: no check for $prop (not claimed)"; continue; }
  ids+=($id)
done
one() {
  id=$1; prop=${id%%-*}
  WT=/var/tmp/selftest.$$.$id
  git -C /repo worktree add -q --detach $WT HEAD || { echo "$id: cannot create worktree"; return; }
  patch=/verif/seeded/$id/patch.diff
  if ! git -C $WT apply --check $patch 2>/dev/null && [ -f /verif/seeded/$id/patch.current.diff ]; then patch=/verif/seeded/$id/patch.current.diff; fi
  if ! git -C $WT apply $patch 2>/dev/null; then
    echo "$id: patch no longer applies to the current tree"
  else
    out=$(VERIF_REPO=$WT VERIF_SCRATCH_OUT=$WT.out ${GOCV:-./bin/gocv} check $prop quick 2>&1); ex=$?
    viol=$(echo "$out" | grep -c '^VIOLATION')
    python3 - "/verif/seeded/$id/meta.json" "$prop" "$ex" "$viol" "$(echo "$out" | grep '^VIOLATION' | head -5)" <<'PY'
import json,sys,re
p,prop,ex,viol,out=sys.argv[1],sys.argv[2],int(sys.argv[3]),int(sys.argv[4]),sys.argv[5]
m=json.load(open(p))
obl=[re.sub(r'.*replay=\S*/','',l).split()[0].replace('.json','') for l in out.splitlines() if l.strip()]
conf=[('no-failing-input-found' not in l) for l in out.splitlines() if l.strip()]
m['detected_by']={'check':prop+' quick','exit':ex,'violations':viol,'obligations':obl,'failing_input_found':any(conf)} if (ex==1 and viol>0) else None
m['last_selftest_exit']=ex
json.dump(m,open(p,'w'),indent=1)
PY
    if [ $ex -eq 1 ] && [ $viol -gt 0 ]; then echo "$id: DETECTED ($viol)"; else echo "$id: MISSED (exit $ex)"; echo "$out" | tail -5 > /var/tmp/selftest_miss_$id.log; fi
  fi
  git -C /repo worktree remove --force $WT >/dev/null 2>&1
  rm -rf $WT.out
}
export -f one
printf '%s\n' "${ids[@]}" | xargs -P $J -I{} bash -c 'one {}' | tee /var/tmp/selftest.$$.log
rc=0
grep -q "MISSED\|cannot create" /var/tmp/selftest.$$.log && rc=1
rm -f /var/tmp/selftest.$$.log
# unchanged tree
for f in props/*.json; do
  prop=$(basename $f .json)
  if [ -n "$want" ] && ! echo " $want " | grep -q " $prop "; then continue; fi
  out=$(${GOCV:-./bin/gocv} check $prop quick 2>&1); ex=$?
  if [ $ex -ne 0 ]; then echo "$prop: unchanged tree exit $ex"; echo "$out" | tail -3; rc=1; else echo "$prop: unchanged tree ok"; fi
done
exit $rc
