#!/bin/bash
# tools/selftest.sh [PROP ...]
# Must-fail corpus: applies every confirmed seeded change under /verif/seeded to
# /repo (git apply), runs the quick check of the property it breaks, undoes it
# (git apply -R) and records in seeded/<id>/meta.json whether the check reported a
# violation and through which obligation.  Then runs every check on the unchanged
# tree (must exit 0).  Never commits anything to /repo; refuses to run on a dirty
# /repo working tree.
set -u
cd /verif
if [ -n "$(git -C /repo status --porcelain)" ]; then echo "selftest: /repo working tree is not clean"; exit 2; fi
want="$*"
rc=0
for d in seeded/*/; do
  id=$(basename $d); prop=${id%%-*}
  if [ -n "$want" ] && ! echo " $want " | grep -q " $prop "; then continue; fi
  [ -f props/$prop.json ] || { echo "$id: no check for $prop (not claimed)"; continue; }
  patch=/verif/$d/patch.diff
  # a later fix: commit may have rewritten the lines the original change touches;
  # patch.current.diff is the same change re-made by hand on the current tree
  if ! git -C /repo apply --check $patch 2>/dev/null && [ -f /verif/$d/patch.current.diff ]; then patch=/verif/$d/patch.current.diff; fi
  if ! git -C /repo apply --check $patch 2>/dev/null; then
    # the seeded change was written against the pinned tree; a later fix: commit
    # may have rewritten the lines it touches
    echo "$id: patch no longer applies to the current tree (see meta.json)"; continue
  fi
  git -C /repo apply $patch
  out=$(./check $prop quick 2>&1); ex=$?
  git -C /repo apply -R $patch
  if [ -n "$(git -C /repo status --porcelain)" ]; then echo "selftest: could not undo $id"; exit 2; fi
  viol=$(echo "$out" | grep -c '^VIOLATION')
  python3 - "$d/meta.json" "$prop" "$ex" "$viol" <<PY
import json,sys,re
p,prop,ex,viol=sys.argv[1],sys.argv[2],int(sys.argv[3]),int(sys.argv[4])
out='''$(echo "$out" | grep '^VIOLATION' | head -5)'''
m=json.load(open(p))
obl=[re.sub(r'.*replay=\S*/','',l).split()[0].replace('.json','') for l in out.splitlines() if l.strip()]
m['detected_by']={'check':prop+' quick','exit':ex,'violations':viol,'obligations':obl} if (ex==1 and viol>0) else None
m['last_selftest_exit']=ex
json.dump(m,open(p,'w'),indent=1)
PY
  if [ $ex -eq 1 ] && [ $viol -gt 0 ]; then echo "$id: DETECTED ($viol)"; else echo "$id: MISSED (exit $ex)"; echo "$out" | tail -5 > /var/tmp/selftest_miss_$id.log; rc=1; fi
done
# unchanged tree
for f in props/*.json; do
  prop=$(basename $f .json)
  if [ -n "$want" ] && ! echo " $want " | grep -q " $prop "; then continue; fi
  out=$(./check $prop quick 2>&1); ex=$?
  if [ $ex -ne 0 ]; then echo "$prop: unchanged tree exit $ex"; echo "$out" | tail -3; rc=1; else echo "$prop: unchanged tree ok"; fi
done
exit $rc
