#!/usr/bin/env python3
"""Regenerate /verif/MANIFEST.json from props/*.json (claimed) and na.json (not applicable)."""
import json, glob, os, subprocess
V = os.path.dirname(os.path.dirname(os.path.abspath(__file__)))
props = [json.loads(l) for l in open(os.path.join(V, 'properties.jsonl'))]
ids = [p['id'] for p in props]
claimed = {}
for f in sorted(glob.glob(os.path.join(V, 'props', '*.json'))):
    d = json.load(open(f))
    if d.get('claimed', True):
        claimed[d['id']] = d
na = json.load(open(os.path.join(V, 'na.json')))
try:
    hooks = subprocess.run(['git', '-C', '/repo', 'log', '--format=%H', '--grep=^verif hooks', ], capture_output=True, text=True).stdout.split()
except Exception:
    hooks = []
checks = []
for i in ids:
    if i not in claimed:
        continue
    d = claimed[i]
    checks.append({
        "property_id": i,
        "quick_cmd": "./check %s quick" % i,
        "thorough_cmd": "./check %s thorough" % i,
        "evidence_file": "evidence/%s.json" % i,
        "replay_cmd_template": "./check --replay {path}",
        "engine": "gocv",
        "level_claimed": {"category": d.get("level", "proof"), "text": d.get("level_text", ""), "design_ref": d.get("design_ref", "DESIGN.md section 6, " + i)},
        "level_note": d.get("level_note", ""),
        "technique": d.get("technique", "contract-based deductive verification: VCs generated over go/ssa of the real code, discharged by z3/cvc5"),
    })
m = {
    "version": 1,
    "setup_cmd": "./setup.sh",
    "hooks": {
        "guard": "verif",
        "enable": "go build -tags verif (the hooks are comment-only contract files zz_contracts_verif.go; they add no code)",
        "baseline_off_cmd": "cd /repo && go test -mod=mod -vet=off -count=1 -timeout 25m ./...",
        "source_commits": hooks,
        "add_only": True,
    },
    "engines": [{"name": "gocv", "path": "engine", "serves_properties": sorted(claimed),
                 "kind_free_text": "contract-based deductive verifier for Go written for this task: contracts as structured comments in /repo (build tag verif), weakest-precondition style VC generation over go/ssa of /repo's working tree, obligations discharged by z3 4.8.12 / z3 5.1.0 / cvc5 1.0 raced per obligation"}],
    "checks": checks,
    "notes": "See DESIGN.md. Every check rebuilds SSA from /repo's working tree on each run. Known findings in known_findings.json.",
    "not_applicable": [{"property_id": i, "reason": na.get(i, "check not built yet; see DESIGN.md section 6")} for i in ids if i not in claimed],
}
json.dump(m, open(os.path.join(V, 'MANIFEST.json'), 'w'), indent=1)
print("claimed:", sorted(claimed), "not applicable:", [i for i in ids if i not in claimed])
