#!/usr/bin/env python3
"""Regenerate section 10 of DESIGN.md: static prose from tools/design10_*.md, tables from props/, na.json, evidence/, seeded/."""
import json, glob, os, re
V = os.path.dirname(os.path.dirname(os.path.abspath(__file__)))
rows = [json.load(open(f)) for f in sorted(glob.glob(V + '/props/*.json'))]
na = json.load(open(V + '/na.json'))
out = [open(V + '/tools/design10_head.md').read().rstrip('\n'), '', '### 10.5 Per-property status', '',
       '| id | level | obligations (quick) | what is decided | not decided (residual) |', '|---|---|---|---|---|']
for d in rows:
    ev = {}
    p = V + '/evidence/%s.json' % d['id']
    if os.path.exists(p):
        ev = json.load(open(p))
    n = ev.get('coverage', {}).get('obligations', ev.get('obligations', '?'))
    res = '; '.join(d.get('residual', [])) or '-'
    out.append('| %s | %s | %s | %s | %s |' % (d['id'], d.get('level', 'proof'), n,
               d.get('explanation', '').replace('|', '/').replace('\n', ' '), res.replace('|', '/')))
out += ['', 'Not claimed (listed under `not_applicable` in MANIFEST.json with these reasons):', '']
claimed = {d['id'] for d in rows}
for k in sorted(na):
    if k not in claimed:
        out.append('* **%s** - %s' % (k, na[k]))
out += ['', open(V + '/tools/design10_seed_intro.md').read().rstrip('\n'),
        '| change | what it does | caught by (obligation) |', '|---|---|---|']
for m in sorted(glob.glob(V + '/seeded/*/meta.json')):
    d = json.load(open(m))
    k = os.path.basename(os.path.dirname(m))
    title = ''
    np_ = os.path.dirname(m) + '/NOTES.md'
    if os.path.exists(np_):
        lines = [l.strip() for l in open(np_)]
        for l in lines:
            if l.startswith('#') and len(l) > 3:
                title = l.lstrip('# ').strip()
                break
        if re.search(r'(?i)\bnotes\b\s*$', title) or len(title) < 25:
            body = [l for l in lines if l and not l.startswith('#')]
            if body:
                title = re.sub(r'\s+', ' ', ' '.join(body[:3]))
    db = d.get('detected_by')
    if db:
        c = '%s: %s' % (db['check'], ', '.join(o.replace('|', '/') for o in db['obligations'][:2]))
    elif os.path.exists(V + '/props/%s.json' % d['property']):
        c = '**missed**'
    else:
        c = '(property not claimed)'
    out.append('| %s | %s | %s |' % (k, title.replace('|', '/')[:160], c))
out += ['', open(V + '/tools/design10_tail.md').read().rstrip('\n'), '']
# harmless corpus
hs = sorted(glob.glob(V + '/harmless/*/'))
if hs:
    out += ['### 10.7 Harmless changes: which refactorings stay quiet', '',
            open(V + '/tools/design10_harmless.md').read().rstrip('\n'), '',
            '| change | what it does | outcome of the property\'s quick check |', '|---|---|---|']
    for h in hs:
        hid = os.path.basename(h.rstrip('/'))
        title = ''
        np_ = h + 'NOTES.md'
        if os.path.exists(np_):
            lines = [l.strip() for l in open(np_) if l.strip()]
            body = [l for l in lines if not l.startswith('#')]
            title = re.sub(r'\s+', ' ', ' '.join(body[:2]))[:170] if body else ''
        res = 'not run'
        rp = h + 'result.json'
        if os.path.exists(rp):
            r = json.load(open(rp))
            res = 'quiet' if r['exit'] == 0 else 'ALARM: ' + ', '.join(r['alarms'][:2])
        out.append('| %s | %s | %s |' % (hid, title.replace('|', '/'), res))
    out.append('')
s = open(V + '/DESIGN.md').read()
marker = '\n---\n\n## 10. Status: what was built'
if marker in s:
    s = s[:s.index(marker)]
open(V + '/DESIGN.md', 'w').write(s.rstrip('\n') + '\n' + '\n'.join(out))
