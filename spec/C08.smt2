; ---------------------------------------------------------------------------
; C08 spec: how many of the records at physical indices [0,n) of a status slice
; are filtered (RecordFlagFilter == 3).  h is the heap component holding the
; Flag field of RecordStatus elements; the element k of a slice (base b,
; offset o) lives at elemref(b, ix(o,k)).
; "The k-th active record" of the property is the physical index p with
; p - cntf(.., p) == k and a non-filter flag at p.
; ---------------------------------------------------------------------------
(define-fun-rec cntf ((h (Array Int Int)) (b Int) (o Int) (n Int)) Int
  (ite (<= n 0) 0 (+ (cntf h b o (- n 1)) (ite (= (select h (elemref b (ix o (- n 1)))) 3) 1 0))))

; 0 <= cntf <= n
(define-fun lemma_cntf_range ((h (Array Int Int)) (b Int) (o Int) (n Int)) Bool
  (and (<= 0 (cntf h b o n)) (<= (cntf h b o n) (ite (<= n 0) 0 n))))
;!auto lemma_cntf_range :pattern ((cntf h b o n))

; one more element
(define-fun lemma_cntf_next ((h (Array Int Int)) (b Int) (o Int) (n Int)) Bool
  (=> (>= n 0) (= (cntf h b o (+ n 1)) (+ (cntf h b o n) (ite (= (select h (elemref b (ix o n))) 3) 1 0)))))

; writing one element's flag changes the count by exactly that element's contribution
(define-fun lemma_cntf_set ((h (Array Int Int)) (b Int) (o Int) (n Int) (i Int) (v Int)) Bool
  (=> (and (<= 0 i))
      (= (cntf (store h (elemref b (ix o i)) v) b o n)
         (ite (< i n) (+ (cntf h b o n) (ite (= (select h (elemref b (ix o i))) 3) (- 1) 0) (ite (= v 3) 1 0)) (cntf h b o n)))))
;!auto lemma_cntf_set :pattern ((cntf (store h (elemref b (ix o i)) v) b o n))

; two heaps that agree on the counted elements give the same count
(define-fun cntf_agree ((h (Array Int Int)) (g (Array Int Int)) (b Int) (o Int) (n Int)) Bool
  (forall ((k Int)) (! (=> (and (<= 0 k) (< k n)) (= (select h (elemref b (ix o k))) (select g (elemref b (ix o k))))) :pattern ((select g (elemref b (ix o k)))))))
(define-fun lemma_cntf_frame ((h (Array Int Int)) (g (Array Int Int)) (b Int) (o Int) (n Int)) Bool
  (=> (cntf_agree h g b o n) (= (cntf h b o n) (cntf g b o n))))

; no filtered record among the first n <=> count zero; all filtered <=> count n
(define-fun lemma_cntf_zero ((h (Array Int Int)) (b Int) (o Int) (n Int) (k Int)) Bool
  (=> (and (= (cntf h b o n) 0) (<= 0 k) (< k n)) (not (= (select h (elemref b (ix o k))) 3))))
;!auto lemma_cntf_zero :pattern ((cntf h b o n) (select h (elemref b (ix o k))))
(define-fun lemma_cntf_mono ((h (Array Int Int)) (b Int) (o Int) (m Int) (n Int)) Bool
  (=> (and (<= 0 m) (<= m n)) (and (<= (cntf h b o m) (cntf h b o n)) (<= (- (cntf h b o n) (cntf h b o m)) (- n m)))))
;!auto lemma_cntf_mono :pattern ((cntf h b o m) (cntf h b o n))
; all of the first n filtered <=> count n
(define-fun lemma_cntf_full ((h (Array Int Int)) (b Int) (o Int) (n Int) (k Int)) Bool
  (=> (and (= (cntf h b o n) n) (<= 0 k) (< k n)) (= (select h (elemref b (ix o k))) 3)))
;!auto lemma_cntf_full :pattern ((cntf h b o n) (select h (elemref b (ix o k))))

; the map p |-> p - cntf(p) ("how many active records precede p") is strictly increasing on
; active records: two different active physical indices are different active indices
(define-fun lemma_cntf_kth ((h (Array Int Int)) (b Int) (o Int) (p Int) (q Int)) Bool
  (=> (and (<= 0 p) (< p q) (not (= (select h (elemref b (ix o p))) 3)))
      (< (- p (cntf h b o p)) (- q (cntf h b o q)))))
;!auto lemma_cntf_kth :pattern ((cntf h b o p) (cntf h b o q))

; no filtered record at all among the first n
(define-fun cntf_none ((h (Array Int Int)) (b Int) (o Int) (n Int)) Bool
  (forall ((k Int)) (! (=> (and (<= 0 k) (< k n)) (not (= (select h (elemref b (ix o k))) 3))) :pattern ((select h (elemref b (ix o k)))))))
(define-fun lemma_cntf_none ((h (Array Int Int)) (b Int) (o Int) (n Int)) Bool
  (=> (cntf_none h b o n) (= (cntf h b o n) 0)))
; the count over a window [m, m+n) of the same array is the difference of two prefix counts
(define-fun lemma_cntf_window ((h (Array Int Int)) (b Int) (o Int) (m Int) (n Int)) Bool
  (=> (and (<= 0 m) (<= 0 n)) (= (cntf h b (ix o m) n) (- (cntf h b o (+ m n)) (cntf h b o m)))))
