; Spec vocabulary shared by all properties.
; Errors are opaque interface values (Int, 0 = nil).  Classification predicates
; are uninterpreted here; their meaning is fixed by the contracts proved of the
; cerrors / conduiterr packages under C20.
(declare-fun is_fatal (Int) Bool)
(assert (not (is_fatal 0)))
; the context a cancel function belongs to (context.WithCancel)
(declare-fun ctx_of (Int) Int)
