; Spec vocabulary shared by all properties.
; Errors are opaque interface values (Int, 0 = nil).  Classification predicates
; are uninterpreted here; their meaning is fixed by the contracts proved of the
; cerrors / conduiterr packages under C20.
(declare-fun is_fatal (Int) Bool)
(assert (not (is_fatal 0)))
; the context a cancel function belongs to (context.WithCancel)
(declare-fun ctx_of (Int) Int)
; byte-wise equality of two slices (bytes.Equal): an equivalence on contents
(declare-fun bytes_equal ((Array Int Int) Int Int (Array Int Int) Int Int) Bool)
(assert (forall ((a (Array Int Int)) (o Int) (n Int)) (! (bytes_equal a o n a o n) :pattern ((bytes_equal a o n a o n)))))
; strings and paths are opaque values; these are the (uninterpreted) functions the
; trusted contracts of path/filepath and strings are stated with
(declare-fun path_clean (Int) Int)
(declare-fun path_isabs (Int) Bool)
(declare-fun path_dir (Int) Int)
(declare-fun path_join (Int Int) Int)
(declare-fun has_prefix (Int Int) Bool)
(declare-fun str_contains (Int Int) Bool)
(declare-fun trim_prefix (Int Int) Int)
