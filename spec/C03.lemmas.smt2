; C03: "a crash at any instant loses no record" as a SAFETY INVARIANT that every
; externally visible event preserves; then every prefix of every history (every
; crash point) satisfies it.  Positions are modelled as indices into the sequence
; of records a source produced (read order); four prefix lengths:
;   h  records handled downstream (acked by every destination, dead-lettered or filtered)
;   a  records acknowledged to connector.Source.Ack
;   d  records covered by the position the store durably holds
;   p  records whose acknowledgment was sent to the plugin
; Invariant  I:  0 <= p <= d <= a <= h.
; Each event's hypothesis below is a CLAUSE PROVED OF THE CODE under the named
; property (they are restated here, the proofs are those checks):
;   ack    C01 [ack-unanimous, ack-only-dlq-prefix, ack-original-positions]: only handled
;          records reach Source.Ack;  C04 [nack-at-cursor, ack-unanimous windows]: as the
;          next consecutive window in read order.
;   flush  C02 [position-is-last-acked, callback-nil-only-if-stored-and-committed]: a
;          commit stores the last position of some earlier Ack, never beyond a.
;   tell   C02 [hand-over-only-durable, durable-mark-only-forward, failed-flush-touches-
;          nothing]: the plugin is told only positions covered by a successful commit.
;   reopen C03 [open-at-stored-position]: after a restart the source is opened at d.

;!lemma C03_invariant ack
(declare-const p Int) (declare-const d Int) (declare-const a Int) (declare-const h Int) (declare-const k Int)
(assert (and (<= 0 p) (<= p d) (<= d a) (<= a h)))
(assert (and (> k 0) (<= (+ a k) h)))            ; the acked window lies within the handled prefix
(assert (not (and (<= 0 p) (<= p d) (<= d (+ a k)) (<= (+ a k) h))))
(check-sat)

;!lemma C03_invariant handled
(declare-const p Int) (declare-const d Int) (declare-const a Int) (declare-const h Int) (declare-const k Int)
(assert (and (<= 0 p) (<= p d) (<= d a) (<= a h)))
(assert (>= k 0))
(assert (not (and (<= 0 p) (<= p d) (<= d a) (<= a (+ h k)))))
(check-sat)

;!lemma C03_invariant flush
(declare-const p Int) (declare-const d Int) (declare-const a Int) (declare-const h Int) (declare-const d2 Int)
(assert (and (<= 0 p) (<= p d) (<= d a) (<= a h)))
(assert (and (<= d d2) (<= d2 a)))               ; stored position only forward, never past the last Ack
(assert (not (and (<= 0 p) (<= p d2) (<= d2 a) (<= a h))))
(check-sat)

;!lemma C03_invariant tell
(declare-const p Int) (declare-const d Int) (declare-const a Int) (declare-const h Int) (declare-const p2 Int)
(assert (and (<= 0 p) (<= p d) (<= d a) (<= a h)))
(assert (and (<= p p2) (<= p2 d)))               ; only durable positions are handed to the plugin
(assert (not (and (<= 0 p2) (<= p2 d) (<= d a) (<= a h))))
(check-sat)

;!lemma C03_no_skip reopen
; crash at any point: volatile a, h are lost; the source is reopened at d.  Nothing
; unhandled lies before the reopen position, and the plugin was never told beyond it.
(declare-const p Int) (declare-const d Int) (declare-const a Int) (declare-const h Int) (declare-const r Int)
(assert (and (<= 0 p) (<= p d) (<= d a) (<= a h)))
(assert (= r d))
(assert (not (and (<= r h) (<= p r))))
(check-sat)
