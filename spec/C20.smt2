; ---------------------------------------------------------------------------
; C20 spec: error values as trees.  An error value x != 0 has a dynamic type
; (dyntype x) and at most two children: err_c1 (what Unwrap() error returns, or
; the first element of Unwrap() []error) and err_c2 (the rest of a join, itself
; a join node or 0).  err_has / err_find are the pre-order search errors.As
; performs.  Trees are finite: err_depth strictly decreases towards children.
; ---------------------------------------------------------------------------
(declare-fun err_c1 (Int) Int)
(declare-fun err_c2 (Int) Int)
(declare-fun err_depth (Int) Int)
(define-fun-rec err_has ((x Int) (t Int)) Bool
  (and (distinct x 0) (or (= (dyntype x) t) (err_has (err_c1 x) t) (err_has (err_c2 x) t))))
(define-fun-rec err_find ((x Int) (t Int)) Int
  (ite (= x 0) 0 (ite (= (dyntype x) t) x (ite (err_has (err_c1 x) t) (err_find (err_c1 x) t) (err_find (err_c2 x) t)))))
(declare-fun err_is (Int Int) Bool)
(declare-fun grpc_code_of (Int) Int)
(declare-fun has_grpc_status (Int) Bool)
(declare-fun context_Canceled () Int)

; the UTF-8 sanitised form of a string (strings.ToValidUTF8 with U+FFFD): uninterpreted;
; the only fact used is that conduiterr.valid returns exactly this and nothing shorter
(declare-fun utf8_valid (Int) Int)
