; ---------------------------------------------------------------------------
; C07 spec: the DLQ nack window as a mathematical object.
;
; Concrete ring state: array of outcomes (true = nack), its length N, the
; cursor (index of the newest outcome), the count of nacks, the threshold T.
; win_step is ONE recorded outcome, written from the property statement:
;  - N == 0: no limit, nothing is recorded;
;  - frozen (nc > T): nothing is recorded any more;
;  - otherwise the oldest outcome is replaced by the new one and the count of
;    nacks among the last N outcomes is kept.
; ---------------------------------------------------------------------------
(declare-datatypes ((Win 0)) (((mk_win (w_arr (Array Int Bool)) (w_n Int) (w_cur Int) (w_nc Int) (w_t Int)))))

(define-fun win_next ((s Win)) Int (ite (= (+ (w_cur s) 1) (w_n s)) 0 (+ (w_cur s) 1)))

(define-fun win_step ((s Win) (x Bool)) Win
  (ite (or (= (w_n s) 0) (> (w_nc s) (w_t s))) s
    (let ((c (win_next s)))
      (mk_win (store (w_arr s) c x) (w_n s) c
              (+ (w_nc s) (ite (select (w_arr s) c) (- 1) 0) (ite x 1 0))
              (w_t s)))))

; m successive outcomes of the same kind
(define-fun-rec win_iter ((s Win) (x Bool) (m Int)) Win
  (ite (<= m 0) s (win_step (win_iter s x (- m 1)) x)))

; number of nacks among indices [0,n)
(define-fun-rec cnt ((a (Array Int Bool)) (n Int)) Int
  (ite (<= n 0) 0 (+ (cnt a (- n 1)) (ite (select a (- n 1)) 1 0))))

; a nack is tolerated iff, after recording it, the nacks among the last N
; outcomes do not exceed T (window size zero: always)
(define-fun win_tolerates ((s Win)) Bool (or (= (w_n s) 0) (<= (w_nc s) (w_t s))))

; ---- lemmas (each proved in C07.lemmas.smt2 by explicit induction) ----------
(define-fun lemma_cnt_update ((a (Array Int Bool)) (k Int) (v Bool) (n Int)) Bool
  (=> (and (<= 0 k) (< k n))
      (= (cnt (store a k v) n) (+ (cnt a n) (ite (select a k) (- 1) 0) (ite v 1 0)))))
;!auto lemma_cnt_update :pattern ((cnt (store a k v) n))

(define-fun lemma_cnt_range ((a (Array Int Bool)) (n Int)) Bool
  (=> (>= n 0) (and (<= 0 (cnt a n)) (<= (cnt a n) n))))
;!auto lemma_cnt_range :pattern ((cnt a n))

(define-fun lemma_cnt_allfalse ((a (Array Int Bool)) (n Int)) Bool
  (=> (forall ((k Int)) (=> (and (<= 0 k) (< k n)) (not (select a k)))) (= (cnt a n) 0)))

(define-fun lemma_cnt_zero ((a (Array Int Bool)) (n Int) (k Int)) Bool
  (=> (and (= (cnt a n) 0) (<= 0 k) (< k n)) (not (select a k))))

; a disabled (N = 0) or frozen window ignores every outcome
(define-fun lemma_iter_inert ((s Win) (x Bool)) Bool
  (=> (or (= (w_n s) 0) (> (w_nc s) (w_t s))) (forall ((m Int)) (= (win_iter s x m) s))))

(define-fun lemma_cnt_zero_all ((a (Array Int Bool)) (n Int)) Bool
  (=> (= (cnt a n) 0) (forall ((k Int)) (=> (and (<= 0 k) (< k n)) (not (select a k))))))

; a window with no nack among its outcomes: acks do not change what it remembers
; (this is what makes the v2 Ack shortcut invisible)
(define-fun win_clean ((s Win)) Bool
  (and (= (w_nc s) 0) (forall ((k Int)) (=> (and (<= 0 k) (< k (w_n s))) (not (select (w_arr s) k))))))
(define-fun win_wf ((s Win)) Bool
  (and (>= (w_n s) 0) (=> (> (w_n s) 0) (and (<= 0 (w_cur s)) (< (w_cur s) (w_n s))))))
(define-fun lemma_ack_clean ((s Win) (m Int)) Bool
  (=> (and (win_clean s) (win_wf s))
      (and (win_clean (win_iter s false m)) (win_wf (win_iter s false m))
           (= (w_n (win_iter s false m)) (w_n s)) (= (w_t (win_iter s false m)) (w_t s)))))

; the view of the ring: outcome k counted from the oldest (k = n-1 is the newest)
(define-fun win_view ((s Win) (k Int)) Bool
  (select (w_arr s) (ite (< (+ (w_cur s) 1 k) (w_n s)) (+ (w_cur s) 1 k) (- (+ (w_cur s) 1 k) (w_n s)))))
; one recorded outcome drops the oldest and appends the new one: the ring is a
; sliding window over the last n outcomes
(define-fun lemma_ring_shift ((s Win) (x Bool) (k Int)) Bool
  (=> (and (win_wf s) (> (w_n s) 0) (<= (w_nc s) (w_t s)) (<= 0 k) (< k (w_n s)))
      (= (win_view (win_step s x) k) (ite (< k (- (w_n s) 1)) (win_view s (+ k 1)) x))))
