; ---------------------------------------------------------------------------
; C07 spec: the DLQ nack window as a mathematical object.
;
; Concrete ring state: array of outcomes (true = nack), its length N, the
; cursor (index of the newest outcome), the count of nacks, the threshold T.
; win_step is ONE recorded outcome, written from the property statement:
;  - N == 0: no limit, nothing is recorded;
;  - frozen (nc > T): nothing is recorded any more;
;  - otherwise the oldest outcome is replaced by the new one and the count of
;    nacks among the last N outcomes is kept.
; ---------------------------------------------------------------------------
(declare-datatypes ((Win 0)) (((mk_win (w_arr (Array Int Bool)) (w_n Int) (w_cur Int) (w_nc Int) (w_t Int)))))

(define-fun win_next ((s Win)) Int (ite (= (+ (w_cur s) 1) (w_n s)) 0 (+ (w_cur s) 1)))

(define-fun win_step ((s Win) (x Bool)) Win
  (ite (or (= (w_n s) 0) (> (w_nc s) (w_t s))) s
    (let ((c (win_next s)))
      (mk_win (store (w_arr s) c x) (w_n s) c
              (+ (w_nc s) (ite (select (w_arr s) c) (- 1) 0) (ite x 1 0))
              (w_t s)))))

; m successive outcomes of the same kind
(define-fun-rec win_iter ((s Win) (x Bool) (m Int)) Win
  (ite (<= m 0) s (win_step (win_iter s x (- m 1)) x)))

; number of nacks among indices [0,n)
(define-fun-rec cnt ((a (Array Int Bool)) (n Int)) Int
  (ite (<= n 0) 0 (+ (cnt a (- n 1)) (ite (select a (- n 1)) 1 0))))

; a nack is tolerated iff, after recording it, the nacks among the last N
; outcomes do not exceed T (window size zero: always)
(define-fun win_tolerates ((s Win)) Bool (or (= (w_n s) 0) (<= (w_nc s) (w_t s))))

; ---- lemmas (each proved in C07.lemmas.smt2 by explicit induction) ----------
(define-fun lemma_cnt_update ((a (Array Int Bool)) (k Int) (v Bool) (n Int)) Bool
  (=> (and (<= 0 k) (< k n))
      (= (cnt (store a k v) n) (+ (cnt a n) (ite (select a k) (- 1) 0) (ite v 1 0)))))
;!auto lemma_cnt_update :pattern ((cnt (store a k v) n))

(define-fun lemma_cnt_range ((a (Array Int Bool)) (n Int)) Bool
  (=> (>= n 0) (and (<= 0 (cnt a n)) (<= (cnt a n) n))))
;!auto lemma_cnt_range :pattern ((cnt a n))

(define-fun lemma_cnt_allfalse ((a (Array Int Bool)) (n Int)) Bool
  (=> (forall ((k Int)) (=> (and (<= 0 k) (< k n)) (not (select a k)))) (= (cnt a n) 0)))

(define-fun lemma_cnt_zero ((a (Array Int Bool)) (n Int) (k Int)) Bool
  (=> (and (= (cnt a n) 0) (<= 0 k) (< k n)) (not (select a k))))

; a disabled (N = 0) or frozen window ignores every outcome
(define-fun lemma_iter_inert ((s Win) (x Bool)) Bool
  (=> (or (= (w_n s) 0) (> (w_nc s) (w_t s))) (forall ((m Int)) (= (win_iter s x m) s))))
