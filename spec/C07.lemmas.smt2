; Proofs of the lemma macros of C07.smt2 by explicit induction.  Every block is
; checked on top of the prelude with the REAL recursive definitions and must be
; unsat.

;!lemma lemma_cnt_update base
(declare-const a (Array Int Bool)) (declare-const k Int) (declare-const v Bool)
(assert (not (lemma_cnt_update a k v 0)))
(check-sat)

;!lemma lemma_cnt_update step
; induction on n: hypothesis for n-1 (same a, k, v), goal for n >= 1
(declare-const a (Array Int Bool)) (declare-const k Int) (declare-const v Bool) (declare-const n Int)
(assert (>= n 1))
(assert (lemma_cnt_update a k v (- n 1)))
; k = n-1 needs that indices >= n-1 do not matter for cnt(.., n-1)
(assert (forall ((b (Array Int Bool)) (j Int) (u Bool) (m Int)) (=> (and (>= j m)) (= (cnt (store b j u) m) (cnt b m)))))
(assert (not (lemma_cnt_update a k v n)))
(check-sat)

;!lemma lemma_cnt_update aux-base
; auxiliary fact used above: a store at or beyond the counted prefix is invisible
(declare-const b (Array Int Bool)) (declare-const j Int) (declare-const u Bool)
(assert (>= j 0))
(assert (not (= (cnt (store b j u) 0) (cnt b 0))))
(check-sat)

;!lemma lemma_cnt_update aux-step
(declare-const b (Array Int Bool)) (declare-const j Int) (declare-const u Bool) (declare-const m Int)
(assert (>= m 1)) (assert (>= j m))
(assert (=> (>= j (- m 1)) (= (cnt (store b j u) (- m 1)) (cnt b (- m 1)))))
(assert (not (= (cnt (store b j u) m) (cnt b m))))
(check-sat)

;!lemma lemma_cnt_range base
(declare-const a (Array Int Bool))
(assert (not (lemma_cnt_range a 0)))
(check-sat)

;!lemma lemma_cnt_range step
(declare-const a (Array Int Bool)) (declare-const n Int)
(assert (>= n 1))
(assert (lemma_cnt_range a (- n 1)))
(assert (not (lemma_cnt_range a n)))
(check-sat)

;!lemma lemma_cnt_allfalse base
(declare-const a (Array Int Bool)) (declare-const n Int)
(assert (<= n 0))
(assert (not (lemma_cnt_allfalse a n)))
(check-sat)

;!lemma lemma_cnt_allfalse step
(declare-const a (Array Int Bool)) (declare-const n Int)
(assert (>= n 1))
(assert (lemma_cnt_allfalse a (- n 1)))
(assert (not (lemma_cnt_allfalse a n)))
(check-sat)

;!lemma lemma_cnt_zero base
(declare-const a (Array Int Bool)) (declare-const k Int) (declare-const n Int)
(assert (<= n 0))
(assert (not (lemma_cnt_zero a n k)))
(check-sat)

;!lemma lemma_cnt_zero step
(declare-const a (Array Int Bool)) (declare-const k Int) (declare-const n Int)
(assert (>= n 1))
(assert (lemma_cnt_zero a (- n 1) k))
(assert (lemma_cnt_range a (- n 1)))
(assert (not (lemma_cnt_zero a n k)))
(check-sat)

;!lemma lemma_iter_inert base
(declare-const s Win) (declare-const x Bool) (declare-const m Int)
(assert (or (= (w_n s) 0) (> (w_nc s) (w_t s))))
(assert (<= m 0))
(assert (not (= (win_iter s x m) s)))
(check-sat)

;!lemma lemma_iter_inert step
(declare-const s Win) (declare-const x Bool) (declare-const m Int)
(assert (or (= (w_n s) 0) (> (w_nc s) (w_t s))))
(assert (>= m 1))
(assert (= (win_iter s x (- m 1)) s))
(assert (not (= (win_iter s x m) s)))
(check-sat)

;!lemma lemma_cnt_zero_all direct
; follows from lemma_cnt_zero instantiated at the skolem index
(declare-const a (Array Int Bool)) (declare-const n Int) (declare-const k Int)
(assert (lemma_cnt_zero a n k))
(assert (= (cnt a n) 0)) (assert (<= 0 k)) (assert (< k n)) (assert (select a k))
(check-sat)

;!lemma lemma_ack_clean base
(declare-const s Win) (declare-const m Int)
(assert (<= m 0))
(assert (not (lemma_ack_clean s m)))
(check-sat)

;!lemma lemma_ack_clean step
(declare-const s Win) (declare-const m Int)
(assert (>= m 1))
(assert (lemma_ack_clean s (- m 1)))
(assert (not (lemma_ack_clean s m)))
(check-sat)

;!lemma lemma_ring_shift direct
(declare-const s Win) (declare-const x Bool) (declare-const k Int)
(assert (not (lemma_ring_shift s x k)))
(check-sat)
