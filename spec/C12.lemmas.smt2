; C12 latch lemma over the CONTRACTS of forceStopper.start / stop (the clauses
; below are copies of the ensures clauses proved of the code under C12; state is
; (cancel, stopped) plus the ghost map cancelled).  In both orders of one start
; and one stop, the context handed out by start ends cancelled.

;!lemma C12_latch stop_then_start
(declare-fun cancelled0 (Int) Bool) (declare-fun cancelled1 (Int) Bool) (declare-fun cancelled2 (Int) Bool)
(declare-const cancel0 Int) (declare-const stopped0 Bool)
(declare-const cancel1 Int) (declare-const stopped1 Bool)
(declare-const cancel2 Int) (declare-const stopped2 Bool)
(declare-const c Int) ; the cancel func returned by start
; initial state of a fresh forceStopper (zero value)
(assert (= cancel0 0)) (assert (not stopped0))
; stop(): ensures[cancel], ensures[latch], ensures[keep]
(assert (=> (distinct cancel0 0) (and (cancelled1 cancel0) (= stopped1 stopped0))))
(assert (=> (= cancel0 0) stopped1))
(assert (and (= cancel1 cancel0) (=> stopped0 stopped1)))
; start(): ensures[publish], ensures[latch], ensures[keep]
(assert (and (= cancel2 c) (distinct c 0)))
(assert (=> stopped1 (cancelled2 c)))
(assert (= stopped2 stopped1))
(assert (not (cancelled2 c)))
(check-sat)

;!lemma C12_latch start_then_stop
(declare-fun cancelled1 (Int) Bool) (declare-fun cancelled2 (Int) Bool)
(declare-const cancel0 Int) (declare-const stopped0 Bool)
(declare-const cancel1 Int) (declare-const stopped1 Bool)
(declare-const cancel2 Int) (declare-const stopped2 Bool)
(declare-const c Int)
(assert (= cancel0 0)) (assert (not stopped0))
; start()
(assert (and (= cancel1 c) (distinct c 0)))
(assert (=> stopped0 (cancelled1 c)))
(assert (= stopped1 stopped0))
; stop()
(assert (=> (distinct cancel1 0) (and (cancelled2 cancel1) (= stopped2 stopped1))))
(assert (=> (= cancel1 0) stopped2))
(assert (and (= cancel2 cancel1) (=> stopped1 stopped2)))
(assert (not (cancelled2 c)))
(check-sat)
