; C20 lemmas over the error-tree spec (spec/C20.smt2): classification is stable
; under wrapping.  "t" is any searched type (the fatal marker type, the coded
; error type, ...).  x is an error value; w wraps it (w's first child is x, no
; second child), j joins a and b.

;!lemma C20_plain_wrapper_preserves_has direct
; a wrapper whose own type is not t has t inside exactly when its child has
(declare-const w Int) (declare-const x Int) (declare-const t Int)
(assert (distinct w 0)) (assert (= (err_c1 w) x)) (assert (= (err_c2 w) 0))
(assert (distinct (dyntype w) t))
(assert (not (= (err_has w t) (err_has x t))))
(check-sat)

;!lemma C20_plain_wrapper_preserves_find direct
; ... and finds the same first match (a coded error keeps its code under plain wrappers)
(declare-const w Int) (declare-const x Int) (declare-const t Int)
(assert (distinct w 0)) (assert (= (err_c1 w) x)) (assert (= (err_c2 w) 0))
(assert (distinct (dyntype w) t))
(assert (err_has x t)) ; there is a coded error inside
(assert (not (= (err_find w t) (err_find x t))))
(check-sat)

;!lemma C20_join_is_disjunction direct
; a join (own type not t) has t inside exactly when one of the joined errors has
(declare-const j Int) (declare-const a Int) (declare-const b Int) (declare-const r Int) (declare-const t Int)
(assert (distinct j 0)) (assert (= (err_c1 j) a)) (assert (= (err_c2 j) r))
(assert (distinct (dyntype j) t))
; r is the rest-of-join node holding b
(assert (=> (distinct b 0) (and (distinct r 0) (= (err_c1 r) b) (= (err_c2 r) 0) (distinct (dyntype r) t))))
(assert (=> (= b 0) (= r 0)))
(assert (not (= (err_has j t) (or (err_has a t) (err_has b t)))))
(check-sat)

;!lemma C20_marked_is_fatal direct
; FatalError's result (contract clause [wraps-cause]: a *fatalError whose child is the
; cause) is fatal, whatever the cause is
(declare-const f Int) (declare-const x Int) (declare-const t Int)
(assert (distinct f 0)) (assert (= (dyntype f) t))
(assert (not (err_has f t)))
(check-sat)

;!lemma C20_two_wrappers_induction step
; n plain wrappers: induction step (classification of w equals that of its child,
; which by hypothesis equals that of the innermost error e)
(declare-const w Int) (declare-const x Int) (declare-const e Int) (declare-const t Int)
(assert (distinct w 0)) (assert (= (err_c1 w) x)) (assert (= (err_c2 w) 0)) (assert (distinct (dyntype w) t))
(assert (= (err_has x t) (err_has e t))) (assert (= (err_find x t) (err_find e t))) (assert (err_has e t))
(assert (not (and (= (err_has w t) (err_has e t)) (= (err_find w t) (err_find e t)))))
(check-sat)
