; C12 vocabulary: nothing beyond common.smt2 (cancelled / ctx_of are ghost state)
