; C15: the instance object a service keeps for an id.  Uninterpreted: the only
; facts used are the ones the interface contracts state (Update/Get return it,
; Add*/Remove* change its id list).
(declare-fun conn_inst (Int Int) Int)
(declare-fun pl_inst (Int Int) Int)
