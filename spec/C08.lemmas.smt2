; Proofs of the lemma macros of C08.smt2 by explicit induction on n (real recursive
; definition of cntf in scope).  Every block must be unsat.

;!lemma lemma_cntf_range base
(declare-const h (Array Int Int)) (declare-const b Int) (declare-const o Int) (declare-const n Int)
(assert (<= n 0))
(assert (not (lemma_cntf_range h b o n)))
(check-sat)

;!lemma lemma_cntf_range step
(declare-const h (Array Int Int)) (declare-const b Int) (declare-const o Int) (declare-const n Int)
(assert (>= n 1))
(assert (lemma_cntf_range h b o (- n 1)))
(assert (not (lemma_cntf_range h b o n)))
(check-sat)

;!lemma lemma_cntf_next all
(declare-const h (Array Int Int)) (declare-const b Int) (declare-const o Int) (declare-const n Int)
(assert (not (lemma_cntf_next h b o n)))
(check-sat)

;!lemma lemma_cntf_set base
(declare-const h (Array Int Int)) (declare-const b Int) (declare-const o Int) (declare-const n Int) (declare-const i Int) (declare-const v Int)
(assert (<= n 0))
(assert (not (lemma_cntf_set h b o n i v)))
(check-sat)

;!lemma lemma_cntf_set step
(declare-const h (Array Int Int)) (declare-const b Int) (declare-const o Int) (declare-const n Int) (declare-const i Int) (declare-const v Int)
(assert (>= n 1))
(assert (lemma_cntf_set h b o (- n 1) i v))
; element references are injective in the index
(assert (=> (= (elemref b (ix o i)) (elemref b (ix o (- n 1)))) (= i (- n 1))))
(assert (not (lemma_cntf_set h b o n i v)))
(check-sat)

;!lemma lemma_cntf_set injective
; the side fact used in the step: elemref(b, ix(o,i)) determines i
(declare-const b Int) (declare-const o Int) (declare-const i Int) (declare-const j Int)
(assert (= (elemref b (ix o i)) (elemref b (ix o j))))
(assert (not (= i j)))
(check-sat)

;!lemma lemma_cntf_frame base
(declare-const h (Array Int Int)) (declare-const g (Array Int Int)) (declare-const b Int) (declare-const o Int) (declare-const n Int)
(assert (<= n 0))
(assert (not (lemma_cntf_frame h g b o n)))
(check-sat)

;!lemma lemma_cntf_frame step
(declare-const h (Array Int Int)) (declare-const g (Array Int Int)) (declare-const b Int) (declare-const o Int) (declare-const n Int)
(assert (>= n 1))
(assert (lemma_cntf_frame h g b o (- n 1)))
(assert (cntf_agree h g b o n))
(assert (= (select h (elemref b (ix o (- n 1)))) (select g (elemref b (ix o (- n 1))))))
(assert (not (= (cntf h b o n) (cntf g b o n))))
(check-sat)

;!lemma lemma_cntf_zero base
(declare-const h (Array Int Int)) (declare-const b Int) (declare-const o Int) (declare-const n Int) (declare-const k Int)
(assert (<= n 0))
(assert (not (lemma_cntf_zero h b o n k)))
(check-sat)

;!lemma lemma_cntf_zero step
(declare-const h (Array Int Int)) (declare-const b Int) (declare-const o Int) (declare-const n Int) (declare-const k Int)
(assert (>= n 1))
(assert (lemma_cntf_zero h b o (- n 1) k))
(assert (lemma_cntf_range h b o (- n 1)))
(assert (not (lemma_cntf_zero h b o n k)))
(check-sat)

;!lemma lemma_cntf_mono base
(declare-const h (Array Int Int)) (declare-const b Int) (declare-const o Int) (declare-const m Int) (declare-const n Int)
(assert (<= n m))
(assert (not (lemma_cntf_mono h b o m n)))
(check-sat)

;!lemma lemma_cntf_mono step
(declare-const h (Array Int Int)) (declare-const b Int) (declare-const o Int) (declare-const m Int) (declare-const n Int)
(assert (> n m))
(assert (lemma_cntf_mono h b o m (- n 1)))
(assert (not (lemma_cntf_mono h b o m n)))
(check-sat)

;!lemma lemma_cntf_full base
(declare-const h (Array Int Int)) (declare-const b Int) (declare-const o Int) (declare-const n Int) (declare-const k Int)
(assert (<= n 0))
(assert (not (lemma_cntf_full h b o n k)))
(check-sat)

;!lemma lemma_cntf_full step
(declare-const h (Array Int Int)) (declare-const b Int) (declare-const o Int) (declare-const n Int) (declare-const k Int)
(assert (>= n 1))
(assert (lemma_cntf_full h b o (- n 1) k))
(assert (lemma_cntf_range h b o (- n 1)))
(assert (not (lemma_cntf_full h b o n k)))
(check-sat)

;!lemma lemma_cntf_kth base
; q = p+1
(declare-const h (Array Int Int)) (declare-const b Int) (declare-const o Int) (declare-const p Int) (declare-const q Int)
(assert (= q (+ p 1)))
(assert (lemma_cntf_next h b o p))
(assert (not (lemma_cntf_kth h b o p q)))
(check-sat)

;!lemma lemma_cntf_kth step
; induction on q: hypothesis for q-1 > p
(declare-const h (Array Int Int)) (declare-const b Int) (declare-const o Int) (declare-const p Int) (declare-const q Int)
(assert (> (- q 1) p))
(assert (lemma_cntf_kth h b o p (- q 1)))
(assert (lemma_cntf_next h b o (- q 1)))
(assert (not (lemma_cntf_kth h b o p q)))
(check-sat)

;!lemma lemma_cntf_none base
(declare-const h (Array Int Int)) (declare-const b Int) (declare-const o Int) (declare-const n Int)
(assert (<= n 0))
(assert (not (lemma_cntf_none h b o n)))
(check-sat)

;!lemma lemma_cntf_none step
(declare-const h (Array Int Int)) (declare-const b Int) (declare-const o Int) (declare-const n Int)
(assert (>= n 1))
(assert (lemma_cntf_none h b o (- n 1)))
(assert (cntf_none h b o n))
(assert (not (= (select h (elemref b (ix o (- n 1)))) 3)))
(assert (not (= (cntf h b o n) 0)))
(check-sat)

;!lemma lemma_cntf_window base
(declare-const h (Array Int Int)) (declare-const b Int) (declare-const o Int) (declare-const m Int) (declare-const n Int)
(assert (<= n 0))
(assert (not (lemma_cntf_window h b o m n)))
(check-sat)

;!lemma lemma_cntf_window step
(declare-const h (Array Int Int)) (declare-const b Int) (declare-const o Int) (declare-const m Int) (declare-const n Int)
(assert (>= n 1)) (assert (<= 0 m))
(assert (lemma_cntf_window h b o m (- n 1)))
(assert (lemma_cntf_next h b o (+ m (- n 1))))
(assert (not (lemma_cntf_window h b o m n)))
(check-sat)
