# Environment for every command of the verification machinery (sourced).
TC=/root/go/pkg/mod/golang.org/toolchain@v0.0.1-go1.25.8.linux-amd64/bin
if [ -x "$TC/go" ]; then export PATH="$TC:$PATH"; fi
export GOTOOLCHAIN=local GOPROXY=off GOFLAGS=-mod=mod
unset GOSUMDB || true
